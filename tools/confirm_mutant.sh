#!/bin/bash
# usage: confirm_mutant.sh <patch.diff> <demo_test.go> <TestName>
# Confirms in a scratch worktree (outside /repo and /verif): demo passes on the
# clean tree; with the patch: builds, the pinned stable tests pass, demo fails.
set -u
PATCH=$(readlink -f "$1"); DEMO=$(readlink -f "$2"); TEST="$3"
export GOFLAGS=-mod=mod GOPROXY=off
WT=/tmp/wt/confirm.$$
git -C /repo worktree add -q --detach "$WT" HEAD || exit 2
cleanup() { git -C /repo worktree remove --force "$WT" >/dev/null 2>&1; }
trap cleanup EXIT
cd "$WT"
cp "$DEMO" ./zz_demo_test.go
if ! go test -vet=off -count=1 -run "^${TEST}\$" . >/tmp/confirm.$$.clean 2>&1; then echo "CLEAN-DEMO-FAILS"; tail -5 /tmp/confirm.$$.clean; rm -f /tmp/confirm.$$.*; exit 1; fi
rm zz_demo_test.go
git apply "$PATCH" || { echo "PATCH-DOES-NOT-APPLY"; exit 1; }
go build ./... || { echo "MUTANT-DOES-NOT-BUILD"; exit 1; }
go test -json -vet=off -count=1 -timeout 25m ./... > /tmp/confirm.$$.json 2>/dev/null
python3 - /tmp/confirm.$$.json <<'PY'
import json,sys
base=json.load(open('/root/.vp/BASELINE.json')); want=set(base['stable_pass']); res={}
for l in open(sys.argv[1]):
    try: e=json.loads(l)
    except: continue
    if e.get('Test') and e.get('Action') in('pass','fail','skip'): res[e['Package']+'::'+e['Test']]=e['Action']
bad=[t for t in want if res.get(t)!='pass']
print("existing-suite:", "PASS" if not bad else "FAIL "+str(bad[:5]))
sys.exit(1 if bad else 0)
PY
suite=$?
cp "$DEMO" ./zz_demo_test.go
if go test -vet=off -count=1 -run "^${TEST}\$" . >/tmp/confirm.$$.mut 2>&1; then echo "MUTANT-DEMO-PASSES (not a valid mutant)"; rm -f /tmp/confirm.$$.*; exit 1; fi
echo "demo fails with mutant: $(grep -m1 -E -- '--- FAIL|panic' /tmp/confirm.$$.mut)"
rm -f /tmp/confirm.$$.*
[ $suite -eq 0 ] && echo CONFIRMED || { echo "SUITE-FAILS-WITH-MUTANT"; exit 1; }
