#!/bin/bash
# Runs the quick (or $1) tier of every claimed check on the current tree and
# rewrites evidence; prints one summary line per property.
cd /verif
tier="${1:-quick}"
rc=0
for id in $(python3 -c "import json;print(' '.join(c['property_id'] for c in json.load(open('MANIFEST.json'))['checks']))"); do
  out=$(./check $id --tier $tier 2>&1); r=$?
  echo "$id exit=$r $(echo "$out" | tail -1)"
  if [ $r -ne 0 ]; then rc=1; echo "$out" | grep -v "^KNOWN" | cut -c1-300 | head -5; fi
done
exit $rc
