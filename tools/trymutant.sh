#!/bin/bash
# usage: trymutant.sh <patch.diff> <prop> [<prop>...]
# Applies the patch to a scratch worktree of /repo's HEAD (outside /repo and /verif,
# removed afterwards), runs the quick (or $TIER) checks against that tree, and prints
# which checks caught it. /repo and /verif/evidence are left untouched, so several
# trials can run at once.
PATCH=$(readlink -f "$1"); shift
WT=/tmp/wt/try.$$
git -C /repo worktree add -q --detach "$WT" HEAD || exit 2
trap 'git -C /repo worktree remove --force "$WT" >/dev/null 2>&1; rm -rf /tmp/wt/tryout.$$' EXIT
( cd "$WT" && git apply "$PATCH" ) || { echo "patch does not apply"; exit 2; }
cd /verif
for p in "$@"; do
  out=$(VERIF_REPO="$WT" VERIF_SCRATCH_OUT=/tmp/wt/tryout.$$ ./check $p --tier ${TIER:-quick} 2>&1); rc=$?
  echo "== $p exit=$rc $(echo "$out" | tail -1)"
  echo "$out" | grep -E "^VIOLATION|^INCONCLUSIVE" | cut -c1-260 | head -4
done
