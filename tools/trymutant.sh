#!/bin/bash
# usage: trymutant.sh <patch.diff> <prop> [<prop>...]  — applies the patch to /repo,
# runs the quick checks, restores /repo. Prints which checks caught it.
PATCH=$(readlink -f "$1"); shift
cd /repo && git apply "$PATCH" || { echo "patch does not apply"; exit 2; }
cd /verif
for p in "$@"; do
  out=$(./check $p --tier ${TIER:-quick} 2>&1); rc=$?
  echo "== $p exit=$rc $(echo "$out" | tail -1)"
  echo "$out" | grep -E "^VIOLATION|^INCONCLUSIVE" | cut -c1-260 | head -4
done
git -C /repo checkout -- . ; git -C /repo status --short | head -3
# evidence files were rewritten by the mutant runs: restore the committed ones
git -C /verif checkout -- evidence 2>/dev/null
