#!/usr/bin/env python3
"""Regenerates /verif/MANIFEST.json from tools/claims.json (one entry per claimed
property) — keeps commands uniform and the not_applicable list complete."""
import json, os
here = os.path.dirname(os.path.abspath(__file__))
root = os.path.dirname(here)
claims = json.load(open(os.path.join(here, "claims.json")))
props = [json.loads(l)["id"] for l in open(os.path.join(root, "properties.jsonl"))]
checks = []
na = []
for pid in props:
    c = claims.get(pid)
    if c and c.get("claimed"):
        checks.append({
            "property_id": pid,
            "quick_cmd": f"./check {pid} --tier quick",
            "thorough_cmd": f"./check {pid} --tier thorough",
            "evidence_file": f"/verif/evidence/{pid}.json",
            "replay_cmd_template": f"./check {pid} --replay {{path}}",
            "engine": "symgo",
            "level_claimed": {
                "category": "model_checking",
                "text": c["text"],
                "design_ref": c.get("design_ref", "DESIGN.md §7 " + pid),
            },
            "level_note": c["note"],
            "technique": c.get("technique", "bounded symbolic execution of the Go SSA of the real code; each assertion decided by SMT (z3/cvc5 portfolio); counterexamples replayed natively"),
        })
    else:
        na.append({"property_id": pid, "reason": (c or {}).get("reason", "no check built yet for this property (work in progress); nothing is claimed")})
m = {
    "version": 1,
    "setup_cmd": "cd /verif/engine && GOFLAGS=-mod=mod GOPROXY=off go build -o bin/symgo ./cmd/symgo",
    "hooks": {
        "guard": "verif",
        "enable": "no source hooks: harnesses are injected as in-package files through go/packages and `go test -overlay` overlays; nothing is written into /repo",
        "baseline_off_cmd": "cd /repo && go test -vet=off -count=1 -timeout 25m ./...",
        "source_commits": [],
        "add_only": True,
    },
    "engines": [{
        "name": "symgo",
        "path": "/verif/engine",
        "serves_properties": [c["property_id"] for c in checks],
        "kind_free_text": "bounded symbolic executor for Go SSA (go/packages + go/ssa of /repo's working tree, regenerated every run); symbolic scalars over a concrete heap, path exploration by re-execution, SMT-LIB2 to z3 5.1 with cvc5 / cvc5 bv-as-int / z3 4.8 fallbacks; native replay via go test -overlay",
    }],
    "checks": checks,
    "not_applicable": na,
    "notes": "Exit codes: 0 held within the stated bounds; 1 VIOLATION (replayed against the real build); 2 INCONCLUSIVE (solver unknown, bound hit, unsupported construct, harness no longer compiles). See DESIGN.md.",
}
json.dump(m, open(os.path.join(root, "MANIFEST.json"), "w"), indent=1)
print(f"claimed {len(checks)} not_applicable {len(na)}")
