#!/bin/bash
# Runs the repository's own test suite (no build tags) and checks that every
# test listed as stable_pass in /root/.vp/BASELINE.json passes.
cd /repo
export GOFLAGS=-mod=mod GOPROXY=off
go test -json -vet=off -count=1 -timeout 25m ./... > /tmp/verif-baseline.json 2>/tmp/verif-baseline.err
python3 - <<'PY'
import json
base=json.load(open('/root/.vp/BASELINE.json'))
want=set(base['stable_pass'])
res={}
for l in open('/tmp/verif-baseline.json'):
    try: e=json.loads(l)
    except: continue
    if e.get('Test') and e.get('Action') in('pass','fail','skip'):
        res[e['Package']+'::'+e['Test']]=e['Action']
bad=[t for t in want if res.get(t)!='pass']
print(f"stable_pass={len(want)} passing_now={len(want)-len(bad)}")
for t in bad[:20]: print("NOT PASSING:",t,res.get(t))
import sys; sys.exit(1 if bad else 0)
PY
rc=$?
rm -f /tmp/verif-baseline.json /tmp/verif-baseline.err
exit $rc
