#!/bin/bash
# usage: repro.sh <TestName> <file.go.txt>... — runs hand-written native reproducers
# against /repo through a go test overlay (nothing is written into /repo).
T="$1"; shift
tmp=$(mktemp -d); json="{\"Replace\":{"
sep=""
for f in "$@" /verif/repro/zz_discard_conn_test.go.txt; do
  b=$(basename "$f" .txt); json="$json$sep\"/repo/zz_repro_$b\":\"$(readlink -f $f)\""; sep=","
done
json="$json}}"; echo "$json" > $tmp/ov.json
cd /repo && GOFLAGS=-mod=mod GOPROXY=off go test -vet=off -count=1 -run "^$T\$" -overlay $tmp/ov.json . 2>&1 | tail -8
rm -rf $tmp
