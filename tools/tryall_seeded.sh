#!/bin/bash
# Regression over the seeded-change corpus: every change in seeded/ whose meta.json
# names catching checks must still be caught (exit 1 + VIOLATION) by at least one of
# them; prints one line per change. Runs $JOBS (default 4) trials at a time, each on
# its own scratch worktree (tools/trymutant.sh). TIER=thorough for the thorough tier.
cd /verif
JOBS=${JOBS:-4}
out=$(mktemp -d)
i=0
for d in seeded/*/; do
  name=$(basename "$d")
  props=$(python3 - "$d/meta.json" <<'PY'
import json,re,sys
m=json.load(open(sys.argv[1]))
ids=[]
for c in m.get('caught_by') or []:
    for x in re.findall(r'\bC\d\d\b(?= (?:quick|thorough))', c):
        if x not in ids: ids.append(x)
print(' '.join(ids))
PY
)
  if [ -z "$props" ]; then echo "$name: listed as not caught (skipped)"; continue; fi
  tier=quick; grep -q "thorough" "$d/meta.json" && ! grep -q "quick" "$d/meta.json" && tier=thorough
  ( r=$(TIER=${TIER:-$tier} tools/trymutant.sh "$d/patch.diff" $props 2>&1); if echo "$r" | grep -q "^VIOLATION"; then echo "$name: caught ($props)"; else echo "$name: MISSED ($props) $(echo "$r" | grep -E 'exit=|apply' | tr '\n' ' ' | cut -c1-200)"; fi ) > "$out/$name.txt" 2>&1 &
  i=$((i+1)); if [ $((i % JOBS)) -eq 0 ]; then wait; fi
done
wait
cat "$out"/*.txt | sort
rm -rf "$out"
