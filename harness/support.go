package tls

// Native bodies of the verif* harness API. Under the symgo engine every
// function below except verifNativeRun/verifPanics is intercepted by name and
// never executed; natively they read a replay table so that the solver's
// counterexamples and reachability witnesses can be re-run against the real
// build (go test -overlay).

import (
	crand "crypto/rand"
	"encoding/json"
	"fmt"
	"os"
	"testing"
)

type verifNativeState struct {
	tbl     map[string]uint64
	cnt     map[string]int
	failed  []string
	reached []string
}

var verifNS = &verifNativeState{tbl: map[string]uint64{}, cnt: map[string]int{}}

func (s *verifNativeState) next(name string) uint64 {
	n := s.cnt[name]
	s.cnt[name] = n + 1
	if n > 0 {
		name = fmt.Sprintf("%s#%d", name, n)
	}
	return s.tbl[name]
}

func verifU8(name string) uint8     { return uint8(verifNS.next(name)) }
func verifU16(name string) uint16   { return uint16(verifNS.next(name)) }
func verifU32(name string) uint32   { return uint32(verifNS.next(name)) }
func verifU64(name string) uint64   { return verifNS.next(name) }
func verifInt(name string) int      { return int(verifNS.next(name)) }
func verifI64(name string) int64    { return int64(verifNS.next(name)) }
func verifBool(name string) bool    { return verifNS.next(name) != 0 }
func verifF64(name string) float64  { return verifF64frombits(verifNS.next(name)) }
func verifChoice(name string, n int) int {
	v := int(verifNS.next(name))
	if v < 0 || v >= n {
		panic("verifChoice: replay value out of range")
	}
	return v
}

func verifBytes(name string, n int) []byte {
	b := make([]byte, n)
	for i := range b {
		b[i] = uint8(verifNS.next(fmt.Sprintf("%s[%d]", name, i)))
	}
	return b
}

func verifString(name string, n int) string { return string(verifBytes(name, n)) }

type verifAssumeFailed struct{}

func verifAssume(c bool) {
	if !c {
		panic(verifAssumeFailed{})
	}
}

func verifAssert(c bool, label string) {
	if !c {
		verifNS.failed = append(verifNS.failed, label)
	}
}

func verifAssertClass(c bool, label, class string) {
	if !c {
		verifNS.failed = append(verifNS.failed, label)
	}
}

// verifAssertPossible: the condition must be satisfiable on this path (used for
// "fresh per connection": two values are not forced to be equal). Natively, and
// in the engine's concrete mode, it fails iff the condition is false.
func verifAssertPossible(c bool, label, class string) {
	if !c {
		verifNS.failed = append(verifNS.failed, label)
	}
}

func verifFail(label, class string) { verifNS.failed = append(verifNS.failed, label) }

func verifReach(label string) { verifNS.reached = append(verifNS.reached, label) }

func verifObserve(name string, v any) {}

func verifAllocLimit(n int64) {}

func verifIsSymbolic() bool { return false }

// verifThorough reports whether the check runs in the thorough tier (harnesses
// use it to widen their stated bounds).
func verifThorough() bool { return verifNS.tbl["__thorough"] != 0 }

// Non-branching boolean connectives (the engine builds one term instead of
// forking as Go's && / || do).
func verifAnd(a, b bool) bool { return a && b }
func verifOr(a, b bool) bool  { return a || b }
func verifIteU16(c bool, a, b uint16) uint16 {
	if c {
		return a
	}
	return b
}

func verifConcretize(x int) int { return x }

func verifChanClosed(ch any) bool {
	switch c := ch.(type) {
	case chan struct{}:
		select {
		case _, ok := <-c:
			return !ok
		default:
			return false
		}
	case <-chan struct{}:
		select {
		case _, ok := <-c:
			return !ok
		default:
			return false
		}
	}
	return false
}

// verifUF / verifUFBytes: uninterpreted functions. Natively (and in the
// engine's concrete mode) they are interpreted by FNV-1a over the arguments.
func verifUF(name string, args ...uint64) uint64 { return verifFNV(name, 0, args) }

func verifUFBytes(name string, outLen int, in []byte) []byte {
	args := make([]uint64, len(in))
	for i, b := range in {
		args[i] = uint64(b)
	}
	out := make([]byte, outLen)
	for i := range out {
		out[i] = byte(verifFNV(name, i, args))
	}
	return out
}

func verifFNV(name string, idx int, args []uint64) uint64 {
	h := uint64(14695981039346656037)
	mix := func(b byte) { h ^= uint64(b); h *= 1099511628211 }
	for i := 0; i < len(name); i++ {
		mix(name[i])
	}
	mix(byte(idx))
	for _, a := range args {
		for s := 0; s < 64; s += 8 {
			mix(byte(a >> uint(s)))
		}
	}
	return h
}

// verifPanics runs f and reports whether it panicked (ordinary Go, also
// interpreted by the engine).
func verifPanics(f func()) (panicked bool) {
	defer func() {
		if r := recover(); r != nil {
			if _, ok := r.(verifAssumeFailed); ok {
				panic(r)
			}
			panicked = true
		}
	}()
	f()
	return false
}

// verifPanicValue runs f and returns the recovered panic value rendered as a
// string ("" if f returned normally).
func verifPanicMessage(f func()) (msg string) {
	defer func() {
		if r := recover(); r != nil {
			if _, ok := r.(verifAssumeFailed); ok {
				panic(r)
			}
			switch x := r.(type) {
			case string:
				msg = "s:" + x
			case error:
				msg = "e:" + x.Error()
			default:
				msg = "other"
			}
		}
	}()
	f()
	return ""
}

// verifCrandReader scripts crypto/rand.Reader natively: byte k of the stream
// is replay input "crand#k", the name the engine's crypto/rand intrinsics use.
type verifCrandReader struct{}

func (verifCrandReader) Read(b []byte) (int, error) {
	for i := range b {
		b[i] = uint8(verifNS.next("crand"))
	}
	return len(b), nil
}

func verifNativeRun(t *testing.T, job int, inputsPath string, h func()) {
	verifNS = &verifNativeState{tbl: map[string]uint64{}, cnt: map[string]int{}}
	crand.Reader = verifCrandReader{}
	if inputsPath != "" {
		b, err := os.ReadFile(inputsPath)
		if err != nil {
			t.Fatal(err)
		}
		if err := json.Unmarshal(b, &verifNS.tbl); err != nil {
			t.Fatal(err)
		}
	}
	pmsg := ""
	func() {
		defer func() {
			if r := recover(); r != nil {
				if _, ok := r.(verifAssumeFailed); ok {
					pmsg = "ASSUME-FAILED"
					return
				}
				pmsg = fmt.Sprint(r)
				if pmsg == "" {
					pmsg = "panic"
				}
			}
		}()
		h()
	}()
	out, _ := json.Marshal(map[string]any{"job": job, "failed": verifNS.failed, "reached": verifNS.reached, "panic": pmsg})
	fmt.Printf("VERIF-REPLAY %s\n", out)
}

func verifConcretizeU16(x uint16) uint16 { return x }

// verifConcretizeBool forks on a symbolic condition (an ordinary branch).
func verifConcretizeBool(b bool) bool { return b }
