package tls

//verif:harness C11 reported_server_name_is_wire_sni unwind=4000 instrs=600000000 paths=60000 wall=900
//verif:stub (*math/rand.Rand).Shuffle zzStubShuffleIdentity
//verif:expect end
//verif:doc For every predefined parrot x Config.ServerName shapes (DNS name, empty, IPv4 literal; thorough: also trailing dot, bracketed IPv6, zone id, 253 bytes) x RemoveSNIExtension on/off x {no further call, SetSNI(other name), BuildHandshakeState then SetSNI(other name)}: after Handshake has sent the ClientHello (the peer never answers), ConnectionState().ServerName equals the server name in the SNI extension actually on the wire, and is empty when no SNI was sent.
func zzC11ReportedServerNameIsWireSNI() {
	p := zzChooseParrot()
	ni := 0
	if verifThorough() {
		ni = verifChoice("name", len(zzNameShapes))
	} else {
		ni = verifChoice("name", 3)
	}
	cfg := zzConfig(zzNameShapes[ni])
	cfg.OmitEmptyPsk = true
	conn := &zzRecConn{}
	uc := UClient(conn, cfg, p.id)
	remove := verifBool("remove-sni")
	if remove {
		verifAssert(uc.RemoveSNIExtension() == nil, "remove-sni-accepted")
	}
	// optionally the documented SetSNI edit, before or after an explicit build
	switch verifChoice("set-sni", 3) {
	case 1:
		uc.SetSNI("other.example")
	case 2:
		if uc.BuildHandshakeState() == nil {
			uc.SetSNI("other.example")
		}
	}
	herr := uc.Handshake()
	verifAssertClass(herr != nil, "handshake-ends-at-eof", p.name)
	pay, ok := zzRecordPayload(conn, 0)
	if !ok {
		// nothing was sent (e.g. the hello could not be built): nothing to compare
		verifReach("end")
		return
	}
	h, why := zzRefParseClientHello(pay)
	verifAssertClass(why == "", "wire-hello-parses-strictly", p.name+":"+why)
	if why == "" {
		wire := ""
		if b, has := h.ext(0); has && len(b) >= 5 {
			wire = string(b[5:])
		}
		got := uc.ConnectionState().ServerName
		if remove {
			verifAssertClass(wire == "", "no-sni-on-the-wire-after-remove", p.name)
			verifAssertClass(got == wire, "reported-server-name-equals-wire-sni", "remove-sni-extension-keeps-config-name")
		} else {
			verifAssertClass(got == wire, "reported-server-name-equals-wire-sni", p.name)
		}
	}
	verifReach("end")
}

//verif:harness C11 reported_parameters_are_the_servers unwind=400 paths=200000 wall=900
//verif:stub (*utls.Conn).sendAlert zzStubSendAlert
//verif:stub (*utls.Conn).readHandshake zzStubReadHandshake
//verif:expect reported13 reported12 refused
//verif:assume the transcript hash is uninterpreted; the server's messages are scripted objects (record layer and key schedule are not run)
//verif:doc The client's half of "both sides report the same parameters": a ClientHello offering TLS 1.3/1.2, three suites, two key shares, two ALPN names and optionally one PSK meets a ServerHello with arbitrary version, suite, key-share group and PSK selection, then (TLS 1.3) EncryptedExtensions with an ALPN choice of 0..2 arbitrary bytes, resp. (TLS 1.2) a ServerHello ALPN choice: the real pickTLSVersion, checkServerHelloOrHRR, processServerHello and readServerParameters run in handshake order; whenever all of them accept, ConnectionState reports exactly the server's choices (version, cipher suite, ALPN protocol, DidResume = PSK selected) and nothing else; after a refusal no negotiated protocol is reported.
func zzC11ReportedParametersAreTheServers() {
	zzAlerts = nil
	c := &Conn{config: &Config{ServerName: "a.example"}, isClient: true}
	hello := &clientHelloMsg{vers: VersionTLS12, supportedVersions: []uint16{VersionTLS13, VersionTLS12}, cipherSuites: []uint16{TLS_AES_128_GCM_SHA256, TLS_AES_256_GCM_SHA384, TLS_ECDHE_RSA_WITH_AES_128_GCM_SHA256},
		keyShares: []keyShare{{group: X25519}, {group: CurveP256}}, alpnProtocols: []string{"h2", "http/1.1"}, sessionId: []byte{7, 7}, compressionMethods: []uint8{0}}
	var session *SessionState
	if verifBool("offers-psk") {
		hello.pskIdentities = []pskIdentity{{label: []byte{1}}}
		session = &SessionState{cipherSuite: TLS_AES_128_GCM_SHA256, version: VersionTLS13}
	}
	var sp string
	if n := verifChoice("server-alpn-len", 3); n > 0 {
		sp = string(verifBytes("server-alpn", n))
	}
	sh := &serverHelloMsg{vers: verifU16("server-legacy-version"), supportedVersion: verifU16("server-supported-version"), cipherSuite: verifU16("server-suite"), sessionId: []byte{7, 7},
		random: make([]byte, 32), selectedIdentityPresent: verifBool("psk-selected"), selectedIdentity: verifU16("psk-index")}
	sh.serverShare.group = CurveID(verifU16("server-share-group"))
	if err := c.pickTLSVersion(sh); err != nil {
		verifReach("refused")
		return
	}
	if c.vers == VersionTLS13 {
		hs := &clientHandshakeStateTLS13{c: c, hello: hello, serverHello: sh, session: session, transcript: &zzUFHash{}}
		if hs.checkServerHelloOrHRR() != nil || hs.processServerHello() != nil {
			verifReach("refused")
			verifAssert(c.ConnectionState().NegotiatedProtocol == "", "nothing-negotiated-after-refusal")
			return
		}
		zzInbox = []any{&encryptedExtensionsMsg{alpnProtocol: sp}}
		if hs.readServerParameters() != nil {
			verifReach("refused")
			verifAssert(c.ConnectionState().NegotiatedProtocol == "", "nothing-negotiated-after-refusal")
			return
		}
		verifReach("reported13")
		st := c.ConnectionState()
		verifAssert(st.Version == VersionTLS13 && sh.supportedVersion == VersionTLS13, "reported-version-is-the-servers")
		verifAssert(st.CipherSuite == sh.cipherSuite, "reported-suite-is-the-servers")
		verifAssert(st.NegotiatedProtocol == sp, "reported-alpn-is-the-servers")
		verifAssert(st.DidResume == sh.selectedIdentityPresent, "did-resume-iff-server-selected-the-psk")
		verifAssert(!st.DidResume || session != nil, "resumption-needs-an-offered-psk")
		return
	}
	// TLS 1.0-1.2
	sh.alpnProtocol = sp
	serverVersion := sh.vers
	if sh.supportedVersion != 0 {
		serverVersion = sh.supportedVersion
	}
	hs := &clientHandshakeState{c: c, hello: hello, serverHello: sh}
	if _, err := hs.processServerHello(); err != nil {
		verifReach("refused")
		verifAssert(c.ConnectionState().NegotiatedProtocol == "", "nothing-negotiated-after-refusal")
		return
	}
	verifReach("reported12")
	st := c.ConnectionState()
	verifAssert(st.Version == serverVersion && serverVersion == VersionTLS12, "reported-version-is-the-servers")
	verifAssert(st.CipherSuite == sh.cipherSuite, "reported-suite-is-the-servers")
	verifAssert(st.NegotiatedProtocol == sp, "reported-alpn-is-the-servers")
	verifAssert(!st.DidResume, "no-resumption-without-a-session")
}

//verif:harness C11 server_reports_the_wire_sni unwind=4000 paths=2000
//verif:stub (*utls.Conn).sendAlert zzStubSendAlert
//verif:stub (crypto.Hash).New zzStubHashNew
//verif:stub (*crypto/ecdh.PrivateKey).ECDH zzStubECDH
//verif:expect tls13 tls12
//verif:assume ECDH is opaque; certificate selection is not reached (TLS 1.2: the name is recorded before it; a later error is irrelevant here)
//verif:doc The server's half of "both sides report the same server name": serverHandshakeStateTLS13.processClientHello and serverHandshakeState.processClientHello on a ClientHello whose server_name is lower-case, mixed-case or upper-case: the name the server's ConnectionState reports is byte for byte the name on the wire (which is what the client reports), not a normalised form.
func zzC11ServerReportsTheWireSNI() {
	zzAlerts = nil
	names := []string{"host.example", "MiXeD.Example", "UPPER.EXAMPLE"}
	name := names[verifChoice("sni", len(names))]
	if verifBool("tls13") {
		c := &Conn{config: &Config{Rand: zzRandReader{}, Time: zzFixedTime}, vers: VersionTLS13}
		ch := &clientHelloMsg{vers: VersionTLS12, random: make([]byte, 32), sessionId: make([]byte, 32), cipherSuites: []uint16{TLS_AES_128_GCM_SHA256},
			compressionMethods: []uint8{compressionNone}, supportedVersions: []uint16{VersionTLS13}, supportedCurves: []CurveID{X25519}, serverName: name,
			keyShares: []keyShare{{group: X25519, data: make([]byte, 32)}}, supportedSignatureAlgorithms: []SignatureScheme{ECDSAWithP256AndSHA256}}
		hs := &serverHandshakeStateTLS13{c: c, clientHello: ch}
		err := hs.processClientHello()
		verifAssert(err == nil, "client-hello-accepted")
		verifAssert(c.ConnectionState().ServerName == name, "server-reports-the-name-on-the-wire")
		verifReach("tls13")
		return
	}
	c := &Conn{config: &Config{Rand: zzRandReader{}, Time: zzFixedTime}, vers: VersionTLS12}
	ch := &clientHelloMsg{vers: VersionTLS12, random: make([]byte, 32), cipherSuites: []uint16{TLS_ECDHE_RSA_WITH_AES_128_GCM_SHA256}, compressionMethods: []uint8{compressionNone},
		supportedCurves: []CurveID{X25519}, supportedPoints: []uint8{0}, serverName: name, supportedSignatureAlgorithms: []SignatureScheme{PSSWithSHA256}}
	hs := &serverHandshakeState{c: c, clientHello: ch}
	_ = hs.processClientHello() // may stop later for want of a certificate; the name is recorded before
	verifAssert(c.ConnectionState().ServerName == name, "server-reports-the-name-on-the-wire")
	verifReach("tls12")
}
