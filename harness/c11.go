package tls

//verif:harness C11 reported_server_name_is_wire_sni unwind=4000 instrs=600000000 paths=60000 wall=900
//verif:stub (*math/rand.Rand).Shuffle zzStubShuffle
//verif:expect end
//verif:doc For every predefined parrot x Config.ServerName shapes (DNS name, empty, IPv4 literal; thorough: also trailing dot, bracketed IPv6, zone id, 253 bytes) x RemoveSNIExtension on/off x {no further call, SetSNI(other name), BuildHandshakeState then SetSNI(other name)}: after Handshake has sent the ClientHello (the peer never answers), ConnectionState().ServerName equals the server name in the SNI extension actually on the wire, and is empty when no SNI was sent.
func zzC11ReportedServerNameIsWireSNI() {
	p := zzChooseParrot()
	ni := 0
	if verifThorough() {
		ni = verifChoice("name", len(zzNameShapes))
	} else {
		ni = verifChoice("name", 3)
	}
	cfg := zzConfig(zzNameShapes[ni])
	cfg.OmitEmptyPsk = true
	conn := &zzRecConn{}
	uc := UClient(conn, cfg, p.id)
	remove := verifBool("remove-sni")
	if remove {
		verifAssert(uc.RemoveSNIExtension() == nil, "remove-sni-accepted")
	}
	// optionally the documented SetSNI edit, before or after an explicit build
	switch verifChoice("set-sni", 3) {
	case 1:
		uc.SetSNI("other.example")
	case 2:
		if uc.BuildHandshakeState() == nil {
			uc.SetSNI("other.example")
		}
	}
	herr := uc.Handshake()
	verifAssertClass(herr != nil, "handshake-ends-at-eof", p.name)
	pay, ok := zzRecordPayload(conn, 0)
	if !ok {
		// nothing was sent (e.g. the hello could not be built): nothing to compare
		verifReach("end")
		return
	}
	h, why := zzRefParseClientHello(pay)
	verifAssertClass(why == "", "wire-hello-parses-strictly", p.name+":"+why)
	if why == "" {
		wire := ""
		if b, has := h.ext(0); has && len(b) >= 5 {
			wire = string(b[5:])
		}
		got := uc.ConnectionState().ServerName
		if remove {
			verifAssertClass(wire == "", "no-sni-on-the-wire-after-remove", p.name)
			verifAssertClass(got == wire, "reported-server-name-equals-wire-sni", "remove-sni-extension-keeps-config-name")
		} else {
			verifAssertClass(got == wire, "reported-server-name-equals-wire-sni", p.name)
		}
	}
	verifReach("end")
}
