package tls

import (
	"crypto/ecdsa"
	"crypto/x509"
	"errors"
	"time"
)

var zzVerifyCalls []x509.VerifyOptions
var zzVerifyFails bool
var zzLeaf *x509.Certificate

var zzNotAfter = time.Unix(1800000000, 0)
var zzNow = time.Unix(1790000000, 0)

func zzStubNewCert(cc *certCache, der []byte) (*activeCert, error) {
	return &activeCert{cert: zzLeaf}, nil
}

// (*x509.Certificate).Verify: records its options; outcome arbitrary.
func zzStubCertVerify(c *x509.Certificate, opts x509.VerifyOptions) ([][]*x509.Certificate, error) {
	zzVerifyCalls = append(zzVerifyCalls, opts)
	if zzVerifyFails {
		return nil, errors.New("x509: modelled verification failure")
	}
	return [][]*x509.Certificate{{c}}, nil
}

func zzStubFipsRequired() bool { return false }

//verif:harness C14 verify_server_certificate_as_configured unwind=400
//verif:stub (*utls.Conn).sendAlert zzStubSendAlert
//verif:stub (*utls.certCache).newCert zzStubNewCert
//verif:stub (*crypto/x509.Certificate).Verify zzStubCertVerify
//verif:expect verified skipped failed
//verif:assume crypto/x509 parsing and chain building are replaced by stubs that record VerifyOptions and return an arbitrary outcome
//verif:doc verifyServerCertificate with every Config combination (InsecureSkipVerify, InsecureSkipTimeVerify, InsecureServerNameToVerify in {"", "*", other}, ECH configured/accepted or not) and an arbitrary x509 outcome: unless verification is skipped, Verify is called exactly once with Roots=RootCAs, the name Config dictates (ServerName; the override; none for "*"; the ECH public name when ECH was offered and rejected), CurrentTime=Config.time() unless InsecureSkipTimeVerify; a failure is returned as CertificateVerificationError after a bad_certificate alert.
func zzC14VerifyServerCertificateAsConfigured() {
	zzVerifyCalls, zzAlerts = nil, nil
	zzVerifyFails = verifBool("verify-fails")
	zzLeaf = &x509.Certificate{NotAfter: zzNotAfter, PublicKey: &ecdsa.PublicKey{}, PublicKeyAlgorithm: x509.ECDSA}
	roots := x509.NewCertPool()
	cfg := &Config{ServerName: "secret.example", RootCAs: roots, Time: func() time.Time { return zzNow }}
	cfg.InsecureSkipVerify = verifBool("skip-verify")
	cfg.InsecureSkipTimeVerify = verifBool("skip-time")
	override := []string{"", "*", "other.example"}[verifChoice("name-override", 3)]
	cfg.InsecureServerNameToVerify = override
	ech := verifBool("ech-configured")
	c := &Conn{config: cfg, isClient: true}
	c.serverName = "secret.example"
	echRejected := false
	if ech {
		cfg.EncryptedClientHelloConfigList = []byte{1}
		c.serverName = "public.example" // outer SNI = ECH public name
		c.echAccepted = verifBool("ech-accepted")
		echRejected = !c.echAccepted
	}
	err := c.verifyServerCertificate([][]byte{{0x30}})
	mustVerify := !cfg.InsecureSkipVerify || echRejected
	if !mustVerify {
		verifReach("skipped")
		verifAssert(len(zzVerifyCalls) == 0 && err == nil, "no-verification-when-skipped")
		return
	}
	verifAssert(len(zzVerifyCalls) == 1, "verify-called-exactly-once")
	if len(zzVerifyCalls) != 1 {
		return
	}
	o := zzVerifyCalls[0]
	verifAssert(o.Roots == roots, "roots-are-config-rootcas")
	wantName := "secret.example"
	if echRejected {
		wantName = "public.example"
	}
	switch override {
	case "*":
		wantName = ""
	case "other.example":
		wantName = "other.example"
	}
	if echRejected && override == "" {
		verifAssertClass(o.DNSName == wantName, "verification-name", "ech-rejected-verifies-secret-name")
	} else {
		verifAssert(o.DNSName == wantName, "verification-name")
	}
	if cfg.InsecureSkipTimeVerify {
		verifAssert(o.CurrentTime.Equal(zzNotAfter), "time-check-relaxed-only-when-asked")
	} else {
		verifAssert(o.CurrentTime.Equal(zzNow), "verified-at-configured-time")
	}
	if zzVerifyFails {
		verifReach("failed")
		var cve *CertificateVerificationError
		verifAssert(err != nil && errors.As(err, &cve), "failure-returned-as-certificate-verification-error")
		verifAssert(len(zzAlerts) > 0 && zzAlerts[0] == alertBadCertificate, "bad-certificate-alert")
		verifAssert(len(c.peerCertificates) == 0, "no-peer-certificates-on-failure")
	} else {
		verifReach("verified")
		verifAssert(err == nil && len(c.peerCertificates) == 1, "success-stores-peer-certificates")
	}
}

//verif:harness C14 resumed_session_rechecks_verification_name unwind=400 paths=200000 wall=900
//verif:stub (*crypto/x509.Certificate).VerifyHostname zzStubVerifyHostname
//verif:stub (time.Time).Sub zzStubTimeSub
//verif:stub (*github.com/refraction-networking/utls/internal/tls13.EarlySecret).ResumptionBinderKey zzStubResumptionBinderKey
//verif:expect offered12 offered13 declined
//verif:assume the session cache returns an ARBITRARY session; x509 host-name matching is a stub with an arbitrary outcome
//verif:doc The resumed-session half of C14 (same scenario as C19 load_session_offers_only_resumable): loadSession offers a cached session only if its leaf certificate is unexpired (unless InsecureSkipTimeVerify), was verified, and matches the name Config dictates - ServerName, InsecureServerNameToVerify when set, no name check when that is "*".
func zzC14ResumedSessionRechecksVerificationName() { zzLoadSessionBody() }
