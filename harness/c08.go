package tls

import (
	"bytes"
	"io"
)

// zzC08Generic: Len() == bytes Read() writes == reference encoding; every
// shorter buffer yields (0, io.ErrShortBuffer) and is left untouched.
func zzC08Generic(e TLSExtension, want []byte) {
	l := e.Len()
	verifAssert(l == len(want), "len-equals-reference-length")
	if l != len(want) {
		return
	}
	buf := make([]byte, l)
	n, err := e.Read(buf)
	verifAssert(n == l && (err == nil || err == io.EOF), "read-writes-len")
	verifAssert(bytes.Equal(buf, want), "bytes-equal-reference")
	if l >= 4 {
		verifAssert(int(buf[2])<<8|int(buf[3]) == l-4, "outer-length-prefix")
	}
	if l > 0 {
		k := verifChoice("short", l)
		sb := make([]byte, k)
		for i := range sb {
			sb[i] = 0xA5
		}
		n2, err2 := e.Read(sb)
		verifAssert(n2 == 0 && err2 == io.ErrShortBuffer, "short-buffer-error")
		clean := true
		for i := range sb {
			if sb[i] != 0xA5 {
				clean = false
			}
		}
		verifAssert(clean, "short-buffer-untouched")
	}
}

// zzC08Rewrite: fresh.Write(body of want) succeeds consuming the whole body
// and re-encoding gives wantNorm (the reference encoding of the normalised
// fields).
func zzC08Rewrite(fresh TLSExtensionWriter, want []byte, wantNorm []byte) {
	body := append([]byte{}, want[4:]...)
	n, err := fresh.Write(body)
	verifAssert(err == nil, "write-accepts-own-encoding")
	if err != nil {
		return
	}
	verifAssert(n >= 0 && n <= len(body), "write-count-in-range")
	l := fresh.Len()
	verifAssert(l == len(wantNorm), "rewrite-len")
	if l != len(wantNorm) {
		return
	}
	buf := make([]byte, l)
	k, err2 := fresh.Read(buf)
	verifAssert(k == l && (err2 == nil || err2 == io.EOF), "rewrite-read")
	verifAssert(bytes.Equal(buf, wantNorm), "rewrite-equals-normalised-reference")
}

// zzN is the list-length bound: 0..2 entries in the quick tier, 0..3 in the thorough tier.
func zzN(name string) int {
	if verifThorough() {
		return verifChoice(name, 4)
	}
	return verifChoice(name, 3)
}

func zzU16s(name string, n int) []uint16 {
	out := make([]uint16, n)
	for i := range out {
		out[i] = verifU16(name)
	}
	return out
}

func zzUnGREASEList(vs []uint16) []uint16 {
	out := make([]uint16, len(vs))
	for i, v := range vs {
		out[i] = zzRefUnGREASE(v)
	}
	return out
}

//verif:harness C08 supported_curves unwind=40
//verif:expect end
//verif:doc SupportedCurvesExtension with 0..3 symbolic groups: Len/Read/short buffers vs RFC 8446 §4.2.7 reference; Write∘Read normalises GREASE groups to the placeholder only.
func zzC08SupportedCurves() {
	n := zzN("n")
	vs := zzU16s("g", n)
	cs := make([]CurveID, n)
	for i := range vs {
		cs[i] = CurveID(vs[i])
	}
	want := zzTLV(10, zzVec16(zzU16List(vs)))
	zzC08Generic(&SupportedCurvesExtension{Curves: cs}, want)
	if n > 0 {
		zzC08Rewrite(&SupportedCurvesExtension{}, want, zzTLV(10, zzVec16(zzU16List(zzUnGREASEList(vs)))))
	}
	verifReach("end")
}

//verif:harness C08 supported_points unwind=40
//verif:expect end
func zzC08SupportedPoints() {
	n := zzN("n")
	ps := verifBytes("p", n)
	want := zzTLV(11, zzVec8(ps))
	zzC08Generic(&SupportedPointsExtension{SupportedPoints: append([]byte{}, ps...)}, want)
	if n > 0 {
		zzC08Rewrite(&SupportedPointsExtension{}, want, want)
	}
	verifReach("end")
}

//verif:harness C08 signature_algorithms unwind=40
//verif:expect end
func zzC08SignatureAlgorithms() {
	n := zzN("n")
	vs := zzU16s("s", n)
	ss := make([]SignatureScheme, n)
	for i := range vs {
		ss[i] = SignatureScheme(vs[i])
	}
	switch verifChoice("which", 3) {
	case 0:
		want := zzTLV(13, zzVec16(zzU16List(vs)))
		zzC08Generic(&SignatureAlgorithmsExtension{SupportedSignatureAlgorithms: ss}, want)
		if n > 0 {
			zzC08Rewrite(&SignatureAlgorithmsExtension{}, want, want)
		}
	case 1:
		want2 := zzTLV(50, zzVec16(zzU16List(vs)))
		zzC08Generic(&SignatureAlgorithmsCertExtension{SupportedSignatureAlgorithms: ss}, want2)
		if n > 0 {
			zzC08Rewrite(&SignatureAlgorithmsCertExtension{}, want2, want2)
		}
	case 2:
		want3 := zzTLV(34, zzVec16(zzU16List(vs)))
		zzC08Generic(&FakeDelegatedCredentialsExtension{SupportedSignatureAlgorithms: ss}, want3)
		if n > 0 {
			zzC08Rewrite(&FakeDelegatedCredentialsExtension{}, want3, want3)
		}
	}
	verifReach("end")
}

func zzProtoList(name string, n int) ([]string, []byte) {
	var ps []string
	var enc []byte
	for i := 0; i < n; i++ {
		l := 1 + verifChoice(name+"len", 3)
		s := verifString(name, l)
		ps = append(ps, s)
		enc = append(enc, byte(l))
		enc = append(enc, []byte(s)...)
	}
	return ps, enc
}

//verif:harness C08 alpn_alps unwind=40
//verif:expect end
//verif:doc ALPN and both ALPS code points with 0..2 protocol names of 1..3 symbolic bytes.
func zzC08AlpnAlps() {
	n := verifChoice("n", 3)
	ps, enc := zzProtoList("proto", n)
	switch verifChoice("which", 3) {
	case 0:
		want := zzTLV(16, zzVec16(enc))
		zzC08Generic(&ALPNExtension{AlpnProtocols: ps}, want)
		if n > 0 {
			zzC08Rewrite(&ALPNExtension{}, want, want)
		}
	case 1:
		w2 := zzTLV(17513, zzVec16(enc))
		zzC08Generic(&ApplicationSettingsExtension{SupportedProtocols: ps}, w2)
		if n > 0 {
			zzC08Rewrite(&ApplicationSettingsExtension{}, w2, w2)
		}
	case 2:
		w3 := zzTLV(17613, zzVec16(enc))
		zzC08Generic(&ApplicationSettingsExtensionNew{SupportedProtocols: ps}, w3)
		if n > 0 {
			zzC08Rewrite(&ApplicationSettingsExtensionNew{}, w3, w3)
		}
	}
	verifReach("end")
}

//verif:harness C08 fixed_extensions unwind=40
//verif:expect end
//verif:doc Field-less extensions: status_request, status_request_v2, SCT, EMS, NPN, channel id (both ids), session_ticket (empty), renegotiation_info.
func zzC08FixedExtensions() {
	switch verifChoice("which", 7) {
	case 0:
		wsr := zzTLV(5, []byte{1, 0, 0, 0, 0})
		zzC08Generic(&StatusRequestExtension{}, wsr)
		zzC08Rewrite(&StatusRequestExtension{}, wsr, wsr)
	case 1:
		wsr2 := zzTLV(17, []byte{0, 7, 2, 0, 4, 0, 0, 0, 0})
		zzC08Generic(&StatusRequestV2Extension{}, wsr2)
		zzC08Rewrite(&StatusRequestV2Extension{}, wsr2, wsr2)
	case 2:
		zzC08Generic(&SCTExtension{}, zzTLV(18, nil))
		zzC08Rewrite(&SCTExtension{}, zzTLV(18, nil), zzTLV(18, nil))
	case 3:
		zzC08Generic(&ExtendedMasterSecretExtension{}, zzTLV(23, nil))
		zzC08Rewrite(&ExtendedMasterSecretExtension{}, zzTLV(23, nil), zzTLV(23, nil))
	case 4:
		zzC08Generic(&NPNExtension{}, zzTLV(13172, nil))
		zzC08Rewrite(&NPNExtension{}, zzTLV(13172, nil), zzTLV(13172, nil))
	case 5:
		zzC08Generic(&FakeChannelIDExtension{}, zzTLV(30032, nil))
		zzC08Rewrite(&FakeChannelIDExtension{}, zzTLV(30032, nil), zzTLV(30032, nil))
	case 6:
		zzC08Generic(&FakeChannelIDExtension{OldExtensionID: true}, zzTLV(30031, nil))
	}
	verifReach("end")
}

//verif:harness C08 generic_grease_cookie_ticket unwind=40
//verif:expect end
//verif:doc GenericExtension, UtlsGREASEExtension, CookieExtension, SessionTicketExtension, RenegotiationInfoExtension with symbolic id and 0..3 symbolic body bytes.
func zzC08GenericGreaseCookieTicket() {
	n := zzN("n")
	id := verifU16("id")
	d := verifBytes("d", n)
	switch verifChoice("which", 5) {
	case 0:
		zzC08Generic(&GenericExtension{Id: id, Data: append([]byte{}, d...)}, zzTLV(id, d))
	case 1:
		wg := zzTLV(id, d)
		zzC08Generic(&UtlsGREASEExtension{Value: id, Body: append([]byte{}, d...)}, wg)
		// Write of a GREASE extension: value becomes the placeholder, body kept
		zzC08Rewrite(&UtlsGREASEExtension{}, wg, zzTLV(0x0a0a, d))
	case 2:
		zzC08Generic(&CookieExtension{Cookie: append([]byte{}, d...)}, zzTLV(44, zzVec16(d)))
	case 3:
		wt := zzTLV(35, d)
		zzC08Generic(&SessionTicketExtension{Ticket: append([]byte{}, d...)}, wt)
		// session-ticket contents are dropped by Write
		zzC08Rewrite(&SessionTicketExtension{}, wt, zzTLV(35, nil))
	case 4:
		wr := zzTLV(0xff01, zzVec8(d))
		zzC08Generic(&RenegotiationInfoExtension{RenegotiatedConnection: append([]byte{}, d...)}, wr)
		// renegotiation-info body is ignored by Write
		zzC08Rewrite(&RenegotiationInfoExtension{}, wr, zzTLV(0xff01, []byte{0}))
	}
	verifReach("end")
}

//verif:harness C08 compress_cert_versions_pskmodes unwind=40
//verif:expect end
func zzC08CompressCertVersionsPskModes() {
	n := zzN("n")
	vs := zzU16s("v", n)
	algs := make([]CertCompressionAlgo, n)
	for i := range vs {
		algs[i] = CertCompressionAlgo(vs[i])
	}
	switch verifChoice("which", 3) {
	case 0:
		wc := zzTLV(27, zzVec8(zzU16List(vs)))
		zzC08Generic(&UtlsCompressCertExtension{Algorithms: algs}, wc)
		zzC08Rewrite(&UtlsCompressCertExtension{}, wc, wc)
	case 1:
		wv := zzTLV(43, zzVec8(zzU16List(vs)))
		zzC08Generic(&SupportedVersionsExtension{Versions: append([]uint16{}, vs...)}, wv)
		if n > 0 {
			zzC08Rewrite(&SupportedVersionsExtension{}, wv, zzTLV(43, zzVec8(zzU16List(zzUnGREASEList(vs)))))
		}
	case 2:
		m := verifBytes("m", n)
		wm := zzTLV(45, zzVec8(m))
		zzC08Generic(&PSKKeyExchangeModesExtension{Modes: append([]byte{}, m...)}, wm)
		zzC08Rewrite(&PSKKeyExchangeModesExtension{}, wm, wm)
	}
	verifReach("end")
}

//verif:harness C08 key_share unwind=40
//verif:expect end
//verif:doc KeyShareExtension with 0..2 shares (symbolic group, 1..3 symbolic key bytes): encoding vs RFC 8446 §4.2.8; Write keeps GREASE share data and drops other key data.
func zzC08KeyShare() {
	n := verifChoice("n", 3)
	var ks []KeyShare
	var enc, encNorm []byte
	for i := 0; i < n; i++ {
		g := verifU16("group")
		l := 1 + verifChoice("klen", 2)
		d := verifBytes("key", l)
		ks = append(ks, KeyShare{Group: CurveID(g), Data: append([]byte{}, d...)})
		enc = append(enc, zzCat(zzU16(g), zzVec16(d))...)
		if zzRefIsGREASE16(g) {
			encNorm = append(encNorm, zzCat(zzU16(0x0a0a), zzVec16(d))...)
		} else {
			encNorm = append(encNorm, zzCat(zzU16(g), zzVec16(nil))...)
		}
	}
	want := zzTLV(51, zzVec16(enc))
	zzC08Generic(&KeyShareExtension{KeyShares: ks}, want)
	zzC08Rewrite(&KeyShareExtension{}, want, zzTLV(51, zzVec16(encNorm)))
	verifReach("end")
}

//verif:harness C08 record_size_token_binding unwind=40
//verif:expect end
func zzC08RecordSizeTokenBinding() {
	if verifChoice("which", 2) == 0 {
		lim := verifU16("limit")
		wl := zzTLV(28, zzU16(lim))
		zzC08Generic(&FakeRecordSizeLimitExtension{Limit: lim}, wl)
		zzC08Rewrite(&FakeRecordSizeLimitExtension{}, wl, wl)
		verifReach("end")
		return
	}
	n := zzN("n")
	kp := verifBytes("kp", n)
	ma, mi := verifU8("major"), verifU8("minor")
	wt := zzTLV(24, zzCat([]byte{ma, mi}, zzVec8(kp)))
	zzC08Generic(&FakeTokenBindingExtension{MajorVersion: ma, MinorVersion: mi, KeyParameters: append([]byte{}, kp...)}, wt)
	zzC08Rewrite(&FakeTokenBindingExtension{}, wt, wt)
	verifReach("end")
}

//verif:harness C08 sni unwind=80
//verif:expect end
//verif:doc SNIExtension for a set of name shapes (ordinary, trailing dot, IPv4/IPv6 literal, bracketed, zone id, empty): absent exactly when the name is not a DNS host name; otherwise RFC 6066 encoding of the name without trailing dot. Write accepts the encoding (name is dropped by design).
func zzC08SNI() {
	names := []string{"example.com", "a.b", "example.com.", "x", "", "192.0.2.1", "[2001:db8::1]", "2001:db8::1", "fe80::1%eth0", "xn--bcher-kva.example"}
	hosts := []string{"example.com", "a.b", "example.com", "x", "", "", "", "", "", "xn--bcher-kva.example"}
	i := verifChoice("name", len(names))
	e := &SNIExtension{ServerName: names[i]}
	if hosts[i] == "" {
		verifAssert(e.Len() == 0, "absent-for-non-dns-name")
		n, err := e.Read(make([]byte, 16))
		verifAssert(n == 0 && err == io.EOF, "read-eof-when-absent")
	} else {
		h := []byte(hosts[i])
		want := zzTLV(0, zzVec16(zzCat([]byte{0}, zzVec16(h))))
		zzC08Generic(e, want)
		fresh := &SNIExtension{}
		n, err := fresh.Write(want[4:])
		verifAssert(err == nil && n == len(want)-4, "write-accepts-own-encoding")
	}
	verifReach("end")
}

//verif:harness C08 padding_ext unwind=300
//verif:expect end
//verif:doc UtlsPaddingExtension with WillPad and a symbolic PaddingLen in [0,64]: type 21, prefix = PaddingLen, zero body on a fresh buffer; absent when WillPad is false.
func zzC08Padding() {
	pl := verifInt("padlen")
	verifAssume(pl >= 0 && pl <= 64)
	plc := verifConcretize(pl)
	want := zzTLV(21, make([]byte, plc))
	zzC08Generic(&UtlsPaddingExtension{PaddingLen: plc, WillPad: true}, want)
	off := &UtlsPaddingExtension{PaddingLen: plc, WillPad: false}
	verifAssert(off.Len() == 0, "absent-when-not-padding")
	verifReach("end")
}

//verif:harness C08 quic_transport_parameters unwind=60
//verif:expect end
//verif:doc QUICTransportParametersExtension wraps TransportParameters.Marshal (checked in C24) in type 57 with a matching length prefix; Len is stable across calls.
func zzC08QuicTP() {
	v := verifU64("v")
	verifAssume(v < 1<<62)
	n := verifChoice("cidlen", 4)
	cid := verifBytes("cid", n)
	tps := TransportParameters{MaxIdleTimeout(v), InitialSourceConnectionID(cid), &GREASEQUICBit{}}
	body := zzCat(quicvarintRef(1), quicvarintRef(uint64(len(quicvarintRef(v)))), quicvarintRef(v),
		quicvarintRef(0xf), quicvarintRef(uint64(n)), cid,
		quicvarintRef(0x2ab2), quicvarintRef(0))
	e := &QUICTransportParametersExtension{TransportParameters: tps}
	zzC08Generic(e, zzTLV(57, body))
	verifReach("end")
}

//verif:harness C08 psk_extensions unwind=80
//verif:expect end
//verif:doc FakePreSharedKeyExtension / UtlsPreSharedKeyExtension with 1..2 identities (label 1..2 symbolic bytes, symbolic age) and 32-byte binders: RFC 8446 §4.2.11 encoding; absent (Len 0) without identities.
func zzC08PskExtensions() {
	n := 1 + verifChoice("n", 2)
	var ids []PskIdentity
	var binders [][]byte
	var encI, encB []byte
	for i := 0; i < n; i++ {
		l := 1 + verifChoice("labellen", 2)
		lab := verifBytes("label", l)
		age := verifU32("age")
		ids = append(ids, PskIdentity{Label: append([]byte{}, lab...), ObfuscatedTicketAge: age})
		encI = append(encI, zzCat(zzVec16(lab), []byte{byte(age >> 24), byte(age >> 16), byte(age >> 8), byte(age)})...)
		bd := make([]byte, 32)
		bd[0] = verifU8("binder0")
		bd[31] = verifU8("binder31")
		binders = append(binders, bd)
		encB = append(encB, zzVec8(bd)...)
	}
	want := zzTLV(41, zzCat(zzVec16(encI), zzVec16(encB)))
	cp := func() [][]byte {
		var o [][]byte
		for _, b := range binders {
			o = append(o, append([]byte{}, b...))
		}
		return o
	}
	if verifChoice("which", 2) == 0 {
		zzC08Generic(&FakePreSharedKeyExtension{Identities: ids, Binders: cp()}, want)
		zzC08Rewrite(&FakePreSharedKeyExtension{}, want, want)
	} else {
		u := &UtlsPreSharedKeyExtension{}
		u.Identities, u.Binders, u.Session = ids, cp(), &SessionState{}
		zzC08Generic(u, want)
	}
	empty := &FakePreSharedKeyExtension{OmitEmptyPsk: true}
	verifAssert(empty.Len() == 0, "absent-without-identities")
	verifReach("end")
}


//verif:harness C08 grease_ech unwind=300
//verif:expect end
//verif:assume crypto/rand yields arbitrary bytes; EncapsulatedKey is supplied by the caller (32 symbolic bytes) so HPKE is not executed
//verif:doc GREASEEncryptedClientHelloExtension with 1..2 candidate suites, candidate config ids, 1..2 candidate payload lengths: outer ECH grammar (type 0xfe0d, outer, (kdf,aead) from candidates, config id from candidates, 32-byte enc, payload = candidate + 16), identical bytes on a second Read.
func zzC08GreaseECH() {
	ns := 1 + verifChoice("nsuites", 2)
	var cs []HPKESymmetricCipherSuite
	for i := 0; i < ns; i++ {
		cs = append(cs, HPKESymmetricCipherSuite{KdfId: verifU16("kdf"), AeadId: 1 + uint16(verifChoice("aead", 3))})
	}
	np := 1 + verifChoice("nlens", 2)
	var pls []uint16
	for i := 0; i < np; i++ {
		pls = append(pls, uint16(1+i+verifChoice("plen", 2)))
	}
	cfg := []uint8{verifU8("cfg0"), verifU8("cfg1")}
	key := verifBytes("enc", 32)
	g := &GREASEEncryptedClientHelloExtension{CandidateCipherSuites: cs, CandidateConfigIds: cfg, CandidatePayloadLens: pls, EncapsulatedKey: append([]byte{}, key...)}
	l := g.Len()
	buf := make([]byte, l)
	n, err := g.Read(buf)
	verifAssert(n == l && (err == nil || err == io.EOF), "read-writes-len")
	verifAssert(buf[0] == 0xfe && buf[1] == 0x0d, "type-ech")
	verifAssert(int(buf[2])<<8|int(buf[3]) == l-4, "outer-length-prefix")
	verifAssert(zzRefCheckExtBody(0xfe0d, buf[4:]) == "", "outer-ech-grammar")
	kdf := uint16(buf[5])<<8 | uint16(buf[6])
	aead := uint16(buf[7])<<8 | uint16(buf[8])
	inCands := false
	for _, c := range cs {
		inCands = verifOr(inCands, verifAnd(c.KdfId == kdf, c.AeadId == aead))
	}
	verifAssert(inCands, "suite-from-candidates")
	verifAssert(verifOr(buf[9] == cfg[0], buf[9] == cfg[1]), "config-id-from-candidates")
	verifAssert(int(buf[10])<<8|int(buf[11]) == 32, "enc-32-bytes")
	verifAssert(bytes.Equal(buf[12:44], key), "enc-is-supplied-key")
	pl := int(buf[44])<<8 | int(buf[45])
	okLen := false
	for _, c := range pls {
		if pl == int(c)+16 {
			okLen = true
		}
	}
	verifAssert(okLen, "payload-is-candidate-plus-tag")
	buf2 := make([]byte, g.Len())
	g.Read(buf2)
	verifAssert(bytes.Equal(buf, buf2), "second-read-identical")
	// short buffer
	k := l - 1 - verifChoice("short", 4)
	sb := make([]byte, k)
	n2, err2 := g.Read(sb)
	verifAssert(n2 == 0 && err2 == io.ErrShortBuffer, "short-buffer-error")
	verifReach("end")
}

//verif:harness C08 grease_ech_write unwind=300
//verif:expect end
//verif:doc GREASE-ECH Write on the body of a well-formed outer ECH extension (KDF and AEAD ids ARBITRARY 16-bit values, enc 1..2 bytes, payload of every length 1..20): an id the extension cannot represent is refused with an error, never a panic; otherwise: re-encoding keeps type, suite, config-id sizes, enc length and payload length (bytes are regenerated), never a wrapped length.
func zzC08GreaseECHWrite() { zzGreaseECHWriteBody() }

func zzGreaseECHWriteBody() {
	// KDF and AEAD ids are arbitrary 16-bit values: the decoder must refuse the
	// ones it cannot represent with an error (never a panic, never a mangled copy)
	kdf := verifU16("kdf")
	aead := verifU16("aead")
	cfg := verifU8("cfg")
	el := 1 + verifChoice("enclen", 2)
	enc := verifBytes("enc", el)
	pl := 1 + verifChoice("paylen", 20)
	pay := verifBytes("pay", pl)
	body := zzCat([]byte{0}, zzU16(kdf), zzU16(aead), []byte{cfg}, zzVec16(enc), zzVec16(pay))
	if kdf >= 1 && kdf <= 3 && aead >= 1 && aead <= 3 {
		verifAssert(zzRefCheckExtBody(0xfe0d, body) == "", "input-is-valid-outer-ech")
	}
	g := &GREASEEncryptedClientHelloExtension{}
	n, err := g.Write(body)
	if err != nil {
		// a capture this extension cannot represent must be refused, not mangled
		verifReach("end")
		return
	}
	verifAssert(n == len(body), "write-consumes-all")
	l := g.Len()
	verifAssertClass(l == 4+len(body), "rewrite-same-length", "ech-grease-short-payload")
	if l <= 4096 {
		buf := make([]byte, l)
		k, err2 := g.Read(buf)
		verifAssert(k == l && (err2 == nil || err2 == io.EOF), "rewrite-read")
		verifAssertClass(int(buf[2])<<8|int(buf[3]) == l-4, "rewrite-length-prefix", "ech-grease-short-payload")
		verifAssertClass(zzRefCheckExtBody(0xfe0d, buf[4:]) == "", "rewrite-grammar", "ech-grease-short-payload")
	}
	verifReach("end")
}

// zzC08Covered: which harness decides encoder/decoder agreement for each
// extension type of the library. The list of types is regenerated from the
// source on every run (zzAllExtensionTypes); a type missing here is reported.
var zzC08Covered = map[string]string{
	"ALPNExtension": "alpn_alps", "applicationSettingsExtension": "alpn_alps (embedded by ApplicationSettingsExtension and ApplicationSettingsExtensionNew)",
	"CookieExtension": "generic_grease_cookie_ticket", "GenericExtension": "generic_grease_cookie_ticket", "UtlsGREASEExtension": "generic_grease_cookie_ticket", "SessionTicketExtension": "generic_grease_cookie_ticket",
	"ExtendedMasterSecretExtension": "fixed_extensions", "FakeChannelIDExtension": "fixed_extensions", "NPNExtension": "fixed_extensions", "SCTExtension": "fixed_extensions", "StatusRequestExtension": "fixed_extensions", "StatusRequestV2Extension": "fixed_extensions", "RenegotiationInfoExtension": "fixed_extensions",
	"FakeDelegatedCredentialsExtension": "signature_algorithms", "SignatureAlgorithmsCertExtension": "signature_algorithms", "SignatureAlgorithmsExtension": "signature_algorithms",
	"FakeRecordSizeLimitExtension": "record_size_token_binding", "FakeTokenBindingExtension": "record_size_token_binding",
	"FakePreSharedKeyExtension": "psk_extensions", "UtlsPreSharedKeyExtension": "psk_extensions", "UnimplementedPreSharedKeyExtension": "psk_extensions (embedded base, no wire form of its own)",
	"GREASEEncryptedClientHelloExtension": "grease_ech, grease_ech_write", "UnimplementedECHExtension": "grease_ech (embedded base, no wire form of its own)",
	"KeyShareExtension": "key_share", "PSKKeyExchangeModesExtension": "compress_cert_versions_pskmodes", "SupportedVersionsExtension": "compress_cert_versions_pskmodes", "UtlsCompressCertExtension": "compress_cert_versions_pskmodes",
	"QUICTransportParametersExtension": "quic_transport_parameters", "SNIExtension": "sni", "SupportedCurvesExtension": "supported_curves", "SupportedPointsExtension": "supported_points", "UtlsPaddingExtension": "padding_ext",
}

//verif:harness C08 every_extension_type_is_covered unwind=200
//verif:expect end
//verif:doc Coverage guard, not a solver claim: the list of types implementing TLSExtension is regenerated from /repo's source on every run; each must be named in the table that says which C08 harness decides its encoder/decoder agreement. A newly added extension type makes this check fail until a harness exists for it.
func zzC08EveryExtensionTypeIsCovered() {
	for _, n := range zzAllExtensionTypes {
		_, ok := zzC08Covered[n]
		verifAssertClass(ok, "extension-type-has-an-encoder-decoder-check", n)
	}
	verifAssert(len(zzAllExtensionTypes) >= 30, "type-table-was-generated")
	verifReach("end")
}
