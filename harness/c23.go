package tls

import (
	"context"
	"errors"
)

var zzBuildFails bool

func zzStubBuildHandshakeState(uc *UConn) error {
	if zzBuildFails {
		return errors.New("zz: modelled BuildHandshakeState failure (e.g. no ServerName)")
	}
	return nil
}

//verif:harness C23 quic_channels_closed_on_every_return unwind=400
//verif:stub (*utls.UConn).BuildHandshakeState zzStubBuildHandshakeState
//verif:expect end
//verif:assume BuildHandshakeState and the handshake function are stubs with arbitrary outcomes; a single goroutine runs handshakeContext (the event pump and real peers are outside the technique)
//verif:doc UConn.handshakeContext with QUIC state attached, for every outcome of BuildHandshakeState (error / success) and of the handshake function (error / success): when it returns, both blockedc and signalc are closed — the fact Start, HandleData and Close rely on to return instead of blocking forever.
func zzC23QuicChannelsClosed() {
	cfg := zzConfig("example.com")
	cfg.MinVersion = VersionTLS13
	q := UQUICClient(&QUICConfig{TLSConfig: cfg}, HelloCustom)
	uc := q.conn
	zzBuildFails = verifBool("build-fails")
	hsFails := verifBool("handshake-fails")
	uc.handshakeFn = func(ctx context.Context) error {
		if hsFails {
			return errors.New("zz: modelled handshake failure")
		}
		uc.isHandshakeComplete.Store(true)
		return nil
	}
	err := uc.handshakeContext(context.Background())
	verifAssert((err != nil) == (zzBuildFails || hsFails), "error-iff-a-step-failed")
	closedB := verifChanClosed(uc.quic.blockedc)
	closedS := verifChanClosed(uc.quic.signalc)
	if zzBuildFails {
		verifAssertClass(closedB && closedS, "quic-channels-closed-on-return", "build-handshake-state-error-path")
	} else {
		verifAssertClass(closedB && closedS, "quic-channels-closed-on-return", "handshake-path")
	}
	verifReach("end")
}

//verif:harness C23 quic_hello_shape unwind=4000 instrs=400000000
//verif:expect end
//verif:doc A TLS 1.3-only QUIC spec (supported_versions {1.3}, key_share X25519, quic_transport_parameters) built on a UQUICConn with all random bytes symbolic: the ClientHello passes the strict grammar, carries an empty legacy session id and the transport parameters; sendDummyChangeCipherSpec writes nothing under QUIC.
func zzC23QuicHelloShape() {
	cfg := zzConfig("example.com")
	cfg.MinVersion = VersionTLS13
	cfg.NextProtos = []string{"h3"}
	q := UQUICClient(&QUICConfig{TLSConfig: cfg}, HelloCustom)
	spec := &ClientHelloSpec{
		TLSVersMin: VersionTLS13, TLSVersMax: VersionTLS13,
		CipherSuites:       []uint16{TLS_AES_128_GCM_SHA256, TLS_CHACHA20_POLY1305_SHA256},
		CompressionMethods: []uint8{0},
		Extensions: []TLSExtension{
			&SNIExtension{},
			&SupportedCurvesExtension{Curves: []CurveID{X25519, CurveP256}},
			&SignatureAlgorithmsExtension{SupportedSignatureAlgorithms: []SignatureScheme{ECDSAWithP256AndSHA256, PSSWithSHA256}},
			&ALPNExtension{AlpnProtocols: []string{"h3"}},
			&SupportedVersionsExtension{Versions: []uint16{VersionTLS13}},
			&KeyShareExtension{KeyShares: []KeyShare{{Group: X25519}}},
			&PSKKeyExchangeModesExtension{Modes: []uint8{pskModeDHE}},
			&QUICTransportParametersExtension{TransportParameters: TransportParameters{InitialMaxData(verifU64("max-data") & (1<<62 - 1)), &GREASEQUICBit{}}},
		},
	}
	verifAssert(q.ApplyPreset(spec) == nil, "apply-preset")
	err := q.conn.BuildHandshakeState()
	verifAssert(err == nil, "build-succeeds")
	if err == nil {
		h, ok := zzCheckHelloSyntax(q.conn.HandshakeState.Hello.Raw, "quic")
		if ok {
			verifAssert(len(h.sessionID) == 0, "empty-legacy-session-id")
			_, has := h.ext(57)
			verifAssert(has, "transport-parameters-present")
		}
		conn := &zzRecConn{}
		q.conn.conn = conn
		hs := &clientHandshakeStateTLS13{c: q.conn.Conn}
		verifAssert(hs.sendDummyChangeCipherSpec() == nil && len(conn.written) == 0, "no-compatibility-ccs-under-quic")
	}
	verifReach("end")
}

//verif:harness C23 quic_event_order unwind=4000 instrs=400000000 paths=2000
//verif:stub (*utls.UConn).BuildHandshakeState zzStubBuildHandshakeState
//verif:stub (*utls.Conn).readHandshake zzStubReadHandshake
//verif:stub (*utls.Conn).sendAlert zzStubSendAlert
//verif:stub (*crypto/ecdh.PrivateKey).ECDH zzStubECDH
//verif:stub (*github.com/refraction-networking/utls/internal/tls13.EarlySecret).HandshakeSecret zzStubHandshakeSecret
//verif:stub (*github.com/refraction-networking/utls/internal/tls13.HandshakeSecret).ClientHandshakeTrafficSecret zzStubTrafficSecret
//verif:stub (*github.com/refraction-networking/utls/internal/tls13.HandshakeSecret).ServerHandshakeTrafficSecret zzStubTrafficSecret
//verif:stub (*github.com/refraction-networking/utls/internal/tls13.HandshakeSecret).MasterSecret zzStubMasterSecret
//verif:stub (*utls.halfConn).setTrafficSecret zzStubSetTrafficSecret
//verif:stub (*utls.cipherSuiteTLS13).finishedHash zzStubFinishedHash
//verif:expect completed refused
//verif:assume key schedule, ECDH and the Finished MAC are opaque; the server's EncryptedExtensions is a scripted object; one goroutine runs the client's handshake steps in handshake order (the event pump between QUIC layer and handshake goroutine is outside the technique)
//verif:doc The QUIC event stream produced by the real client-side steps run in handshake order inside UConn.handshakeContext - establishHandshakeKeys, readServerParameters (EncryptedExtensions with or without quic_transport_parameters of 0..2 symbolic bytes), sendClientFinished, then handshakeContext's own completion code: at each encryption level the write secret is delivered before the read secret, the 1-RTT read secret comes only after HandshakeDone, the peer's transport parameters are delivered exactly once and byte for byte, and a server that omits them is refused with missing_extension without any later secret being delivered.
func zzC23QuicEventOrder() {
	zzAlerts, zzBuildFails = nil, false
	cfg := zzConfig("example.com")
	cfg.MinVersion = VersionTLS13
	cfg.SessionTicketsDisabled = true
	q := UQUICClient(&QUICConfig{TLSConfig: cfg}, HelloCustom)
	uc := q.conn
	c := uc.Conn
	c.vers = VersionTLS13
	key, kerr := generateECDHEKey(zzRandReader{}, X25519)
	if kerr != nil {
		verifFail("key-generation", "")
		return
	}
	var tp []byte
	hasTP := verifBool("server-sends-transport-parameters")
	if hasTP {
		tp = verifBytes("server-tp", verifChoice("server-tp-len", 3))
		if tp == nil {
			tp = []byte{}
		}
	}
	hello := &clientHelloMsg{keyShares: []keyShare{{group: X25519, data: key.PublicKey().Bytes()}}, alpnProtocols: []string{"h3"}}
	sh := &serverHelloMsg{serverShare: keyShare{group: X25519, data: make([]byte, 32)}}
	var stepErr error
	uc.handshakeFn = func(ctx context.Context) error {
		hs := &clientHandshakeStateTLS13{c: c, uconn: uc, hello: hello, serverHello: sh, suite: cipherSuiteTLS13ByID(TLS_AES_128_GCM_SHA256), transcript: &zzUFHash{},
			keyShareKeys: &keySharePrivateKeys{curveID: X25519, ecdhe: key}, earlySecret: nil, trafficSecret: make([]byte, 32)}
		if stepErr = hs.establishHandshakeKeys(); stepErr != nil {
			return stepErr
		}
		zzInbox = []any{&encryptedExtensionsMsg{alpnProtocol: "h3", quicTransportParameters: tp}}
		if stepErr = hs.readServerParameters(); stepErr != nil {
			return stepErr
		}
		if stepErr = hs.sendClientFinished(); stepErr != nil {
			return stepErr
		}
		c.isHandshakeComplete.Store(true)
		return nil
	}
	err := uc.handshakeContext(context.Background())
	evs := c.quic.events
	idx := func(kind QUICEventKind, level QUICEncryptionLevel) (first, count int) {
		first = -1
		for i, e := range evs {
			if e.Kind == kind && (kind != QUICSetReadSecret && kind != QUICSetWriteSecret || e.Level == level) {
				if first < 0 {
					first = i
				}
				count++
			}
		}
		return
	}
	wh, nwh := idx(QUICSetWriteSecret, QUICEncryptionLevelHandshake)
	rh, nrh := idx(QUICSetReadSecret, QUICEncryptionLevelHandshake)
	wa, nwa := idx(QUICSetWriteSecret, QUICEncryptionLevelApplication)
	ra, nra := idx(QUICSetReadSecret, QUICEncryptionLevelApplication)
	done, ndone := idx(QUICHandshakeDone, 0)
	tpi, ntp := idx(QUICTransportParameters, 0)
	if !hasTP {
		verifReach("refused")
		verifAssert(err != nil && len(zzAlerts) >= 1 && zzAlerts[0] == alertMissingExtension, "missing-transport-parameters-refused")
		verifAssert(ntp == 0 && nwa == 0 && nra == 0 && ndone == 0, "nothing-delivered-after-refusal")
		verifAssert(verifChanClosed(c.quic.blockedc) && verifChanClosed(c.quic.signalc), "channels-closed")
		return
	}
	verifReach("completed")
	verifAssert(err == nil, "handshake-steps-complete")
	verifAssert(nwh == 1 && nrh == 1 && wh < rh, "handshake-level-write-before-read")
	verifAssert(nwa == 1 && nra == 1 && wa < ra, "application-level-write-before-read")
	verifAssert(ndone == 1 && done < ra && wa < done, "one-rtt-read-secret-only-after-handshake-done")
	verifAssert(ntp == 1 && tpi > rh && tpi < wa && len(evs[tpi].Data) == len(tp) && zzBytesEq(evs[tpi].Data, tp), "peer-transport-parameters-delivered-exactly-once")
	verifAssert(rh < wa, "handshake-level-before-application-level")
}
