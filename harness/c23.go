package tls

import (
	"context"
	"errors"
)

var zzBuildFails bool

func zzStubBuildHandshakeState(uc *UConn) error {
	if zzBuildFails {
		return errors.New("zz: modelled BuildHandshakeState failure (e.g. no ServerName)")
	}
	return nil
}

//verif:harness C23 quic_channels_closed_on_every_return unwind=400
//verif:stub (*utls.UConn).BuildHandshakeState zzStubBuildHandshakeState
//verif:expect end
//verif:assume BuildHandshakeState and the handshake function are stubs with arbitrary outcomes; a single goroutine runs handshakeContext (the event pump and real peers are outside the technique)
//verif:doc UConn.handshakeContext with QUIC state attached, for every outcome of BuildHandshakeState (error / success) and of the handshake function (error / success): when it returns, both blockedc and signalc are closed — the fact Start, HandleData and Close rely on to return instead of blocking forever.
func zzC23QuicChannelsClosed() {
	cfg := zzConfig("example.com")
	cfg.MinVersion = VersionTLS13
	q := UQUICClient(&QUICConfig{TLSConfig: cfg}, HelloCustom)
	uc := q.conn
	zzBuildFails = verifBool("build-fails")
	hsFails := verifBool("handshake-fails")
	uc.handshakeFn = func(ctx context.Context) error {
		if hsFails {
			return errors.New("zz: modelled handshake failure")
		}
		uc.isHandshakeComplete.Store(true)
		return nil
	}
	err := uc.handshakeContext(context.Background())
	verifAssert((err != nil) == (zzBuildFails || hsFails), "error-iff-a-step-failed")
	closedB := verifChanClosed(uc.quic.blockedc)
	closedS := verifChanClosed(uc.quic.signalc)
	if zzBuildFails {
		verifAssertClass(closedB && closedS, "quic-channels-closed-on-return", "build-handshake-state-error-path")
	} else {
		verifAssertClass(closedB && closedS, "quic-channels-closed-on-return", "handshake-path")
	}
	verifReach("end")
}

//verif:harness C23 quic_hello_shape unwind=4000 instrs=400000000
//verif:expect end
//verif:doc A TLS 1.3-only QUIC spec (supported_versions {1.3}, key_share X25519, quic_transport_parameters) built on a UQUICConn with all random bytes symbolic: the ClientHello passes the strict grammar, carries an empty legacy session id and the transport parameters; sendDummyChangeCipherSpec writes nothing under QUIC.
func zzC23QuicHelloShape() {
	cfg := zzConfig("example.com")
	cfg.MinVersion = VersionTLS13
	cfg.NextProtos = []string{"h3"}
	q := UQUICClient(&QUICConfig{TLSConfig: cfg}, HelloCustom)
	spec := &ClientHelloSpec{
		TLSVersMin: VersionTLS13, TLSVersMax: VersionTLS13,
		CipherSuites:       []uint16{TLS_AES_128_GCM_SHA256, TLS_CHACHA20_POLY1305_SHA256},
		CompressionMethods: []uint8{0},
		Extensions: []TLSExtension{
			&SNIExtension{},
			&SupportedCurvesExtension{Curves: []CurveID{X25519, CurveP256}},
			&SignatureAlgorithmsExtension{SupportedSignatureAlgorithms: []SignatureScheme{ECDSAWithP256AndSHA256, PSSWithSHA256}},
			&ALPNExtension{AlpnProtocols: []string{"h3"}},
			&SupportedVersionsExtension{Versions: []uint16{VersionTLS13}},
			&KeyShareExtension{KeyShares: []KeyShare{{Group: X25519}}},
			&PSKKeyExchangeModesExtension{Modes: []uint8{pskModeDHE}},
			&QUICTransportParametersExtension{TransportParameters: TransportParameters{InitialMaxData(verifU64("max-data") & (1<<62 - 1)), &GREASEQUICBit{}}},
		},
	}
	verifAssert(q.ApplyPreset(spec) == nil, "apply-preset")
	err := q.conn.BuildHandshakeState()
	verifAssert(err == nil, "build-succeeds")
	if err == nil {
		h, ok := zzCheckHelloSyntax(q.conn.HandshakeState.Hello.Raw, "quic")
		if ok {
			verifAssert(len(h.sessionID) == 0, "empty-legacy-session-id")
			_, has := h.ext(57)
			verifAssert(has, "transport-parameters-present")
		}
		conn := &zzRecConn{}
		q.conn.conn = conn
		hs := &clientHandshakeStateTLS13{c: q.conn.Conn}
		verifAssert(hs.sendDummyChangeCipherSpec() == nil && len(conn.written) == 0, "no-compatibility-ccs-under-quic")
	}
	verifReach("end")
}
