package tls

import (
	"errors"
)

// Differential harness: UConn.Read/Write are copies of Conn.Read/Write. Both
// are run from identical arbitrary states with the same stubbed environment;
// results and the sequence of record-layer calls must agree.

type zzRecCall struct {
	typ  recordType
	data []byte
}

var zzConnA, zzConnB *Conn
var zzWritesA, zzWritesB []zzRecCall
var zzWriteFailAt int
var zzErrWrite = errors.New("zz: modelled record write error")

func zzStubWriteRecordLocked(c *Conn, typ recordType, data []byte) (int, error) {
	call := zzRecCall{typ, append([]byte{}, data...)}
	var n int
	if c == zzConnA {
		zzWritesA = append(zzWritesA, call)
		n = len(zzWritesA)
	} else {
		zzWritesB = append(zzWritesB, call)
		n = len(zzWritesB)
	}
	if n-1 == zzWriteFailAt {
		return 0, zzErrWrite
	}
	return len(data), nil
}

var zzHandshakeErr error

func zzStubConnHandshake(c *Conn) error   { return zzHandshakeErr }
func zzStubUConnHandshake2(c *UConn) error { return zzHandshakeErr }

type zzBlockMode struct{}

func (zzBlockMode) BlockSize() int              { return 16 }
func (zzBlockMode) CryptBlocks(dst, src []byte) {}

func zzPrepWriteState(c *Conn, vers uint16, cipherKind int, closed, closeNotify, complete bool, outErr error) {
	c.config = &Config{}
	c.vers = vers
	switch cipherKind {
	case 1:
		c.out.cipher = zzBlockMode{}
	case 2:
		c.out.cipher = &zzStreamAEAD{}
	}
	if closed {
		c.activeCall.Store(1)
	}
	c.closeNotifySent = closeNotify
	c.isHandshakeComplete.Store(complete)
	c.out.err = outErr
}

//verif:harness C25 uconn_write_equals_conn_write unwind=400 paths=100000
//verif:stub (*utls.Conn).Handshake zzStubConnHandshake
//verif:stub (*utls.UConn).Handshake zzStubUConnHandshake2
//verif:stub (*utls.Conn).writeRecordLocked zzStubWriteRecordLocked
//verif:expect end
//verif:assume Handshake and the record layer (writeRecordLocked) are stubs behaving identically for both connections
//verif:doc UConn.Write vs Conn.Write from identical arbitrary states (version 1.0..1.3, cipher none / CBC block mode / AEAD, closed flag, close_notify sent, handshake complete or not, sticky write error, Handshake outcome, a record write that fails or not) and an arbitrary payload of 0..3 (thorough 0..7) symbolic bytes: same (n, err), same sequence of record writes (including the 1/n-1 split for CBC under TLS 1.0), same sticky error afterwards.
func zzC25UConnWriteEqualsConnWrite() {
	vers := uint16(VersionTLS10 + verifChoice("vers", 4))
	ck := verifChoice("cipher", 3)
	closed, cn, complete := verifBool("closed"), verifBool("close-notify-sent"), verifBool("handshake-complete")
	var outErr error
	if verifBool("sticky-out-error") {
		outErr = errors.New("zz: earlier write error")
	}
	zzHandshakeErr = nil
	if verifBool("handshake-fails") {
		zzHandshakeErr = errors.New("zz: handshake error")
	}
	zzWriteFailAt = verifChoice("write-fails-at", 3) - 1
	a := &Conn{}
	ub := &UConn{Conn: &Conn{}}
	zzPrepWriteState(a, vers, ck, closed, cn, complete, outErr)
	zzPrepWriteState(ub.Conn, vers, ck, closed, cn, complete, outErr)
	zzConnA, zzConnB, zzWritesA, zzWritesB = a, ub.Conn, nil, nil
	payload := verifBytes("payload", verifChoice("len", zzTierN(4, 8)))
	n1, e1 := a.Write(append([]byte{}, payload...))
	n2, e2 := ub.Write(append([]byte{}, payload...))
	verifAssert(n1 == n2, "same-byte-count")
	verifAssert((e1 == nil) == (e2 == nil) && (e1 == nil || e1.Error() == e2.Error()), "same-error")
	verifAssert(len(zzWritesA) == len(zzWritesB), "same-number-of-records")
	for i := range zzWritesA {
		if i < len(zzWritesB) {
			verifAssert(zzWritesA[i].typ == zzWritesB[i].typ && zzBytesEq(zzWritesA[i].data, zzWritesB[i].data), "same-records")
		}
	}
	verifAssert((a.out.err == nil) == (ub.out.err == nil), "same-sticky-error")
	verifAssert(a.activeCall.Load() == ub.activeCall.Load(), "same-active-call-counter")
	// reference behaviour of the split itself
	if e1 == nil && len(payload) > 1 && vers == VersionTLS10 && ck == 1 {
		verifAssert(len(zzWritesB) == 2 && len(zzWritesB[0].data) == 1 && len(zzWritesB[1].data) == len(payload)-1, "one-n-minus-one-split-for-cbc-tls10")
	}
	verifReach("end")
}

var zzReadsA, zzReadsB int
var zzReadScript []int // per readRecord call: 0 = error, 1 = deliver data, 2 = deliver handshake bytes, 3 = nothing
var zzReadData []byte
var zzPostA, zzPostB int
var zzPostFails bool

func zzStubReadRecord(c *Conn) error {
	var k int
	if c == zzConnA {
		k = zzReadsA
		zzReadsA++
	} else {
		k = zzReadsB
		zzReadsB++
	}
	if k >= len(zzReadScript) {
		return errors.New("zz: EOF")
	}
	switch zzReadScript[k] {
	case 0:
		return errors.New("zz: modelled read error")
	case 1:
		c.input.Reset(zzReadData)
	case 2:
		c.hand.Write([]byte{24, 0, 0, 1, 0})
	}
	return nil
}

func zzPost(c *Conn) error {
	c.hand.Reset()
	if c == zzConnA {
		zzPostA++
	} else {
		zzPostB++
	}
	if zzPostFails {
		return errors.New("zz: post-handshake message error")
	}
	return nil
}
func zzStubConnPost(c *Conn) error   { return zzPost(c) }
func zzStubUConnPost(c *UConn) error { return zzPost(c.Conn) }

//verif:harness C25 uconn_read_equals_conn_read unwind=400 paths=100000
//verif:stub (*utls.Conn).Handshake zzStubConnHandshake
//verif:stub (*utls.UConn).Handshake zzStubUConnHandshake2
//verif:stub (*utls.Conn).readRecord zzStubReadRecord
//verif:stub (*utls.Conn).handlePostHandshakeMessage zzStubConnPost
//verif:stub (*utls.UConn).handlePostHandshakeMessage zzStubUConnPost
//verif:expect end
//verif:assume Handshake, readRecord and handlePostHandshakeMessage are stubs behaving identically for both connections
//verif:doc UConn.Read vs Conn.Read from identical states with a scripted record source of up to 3 events (read error, application data of 1..2 symbolic bytes, post-handshake message, empty record), buffer length 0..3, a pending close_notify or not: same (n, err), same bytes, same number of record reads and post-handshake dispatches.
func zzC25UConnReadEqualsConnRead() {
	zzHandshakeErr = nil
	if verifBool("handshake-fails") {
		zzHandshakeErr = errors.New("zz: handshake error")
	}
	ne := verifChoice("events", 4)
	zzReadScript = nil
	for i := 0; i < ne; i++ {
		zzReadScript = append(zzReadScript, verifChoice("event", 4))
	}
	zzReadData = verifBytes("data", 1+verifChoice("datalen", 2))
	zzPostFails = verifBool("post-handshake-fails")
	pendingAlert := verifBool("pending-alert-record")
	a := &Conn{config: &Config{}}
	ub := &UConn{Conn: &Conn{config: &Config{}}}
	if pendingAlert {
		a.rawInput.Write([]byte{byte(recordTypeAlert), 3, 3, 0, 2, 1, 0})
		ub.rawInput.Write([]byte{byte(recordTypeAlert), 3, 3, 0, 2, 1, 0})
	}
	zzConnA, zzConnB, zzReadsA, zzReadsB, zzPostA, zzPostB = a, ub.Conn, 0, 0, 0, 0
	bl := verifChoice("buflen", 4)
	b1, b2 := make([]byte, bl), make([]byte, bl)
	n1, e1 := a.Read(b1)
	n2, e2 := ub.Read(b2)
	verifAssert(n1 == n2, "same-byte-count")
	verifAssert((e1 == nil) == (e2 == nil) && (e1 == nil || e1.Error() == e2.Error()), "same-error")
	verifAssert(zzBytesEq(b1, b2), "same-bytes")
	verifAssert(zzReadsA == zzReadsB && zzPostA == zzPostB, "same-record-reads-and-dispatches")
	verifReach("end")
}

// zzModelAEAD: ciphertext = plaintext XOR KS(nonce); tag = T(nonce, ad, plaintext)
// with KS and T uninterpreted. Open recomputes the tag and fails on mismatch.
type zzModelAEAD struct {
	tags [][3][]byte // (input, tag) pairs seen, for the injectivity axiom
}

func (a *zzModelAEAD) NonceSize() int { return 12 }
func (a *zzModelAEAD) Overhead() int  { return 16 }
func (a *zzModelAEAD) tag(nonce, ad, pt []byte) []byte {
	in := zzCat(nonce, []byte{byte(len(ad))}, ad, pt)
	t := verifUFBytes("aead-tag", 16, in)
	a.tags = append(a.tags, [3][]byte{in, t, nil})
	return t
}
func (a *zzModelAEAD) Seal(dst, nonce, pt, ad []byte) []byte {
	ks := verifUFBytes("aead-ks", len(pt), nonce)
	out := make([]byte, len(pt))
	for i := range pt {
		out[i] = pt[i] ^ ks[i]
	}
	tag := a.tag(nonce, ad, pt) // before dst (which may alias pt) is written
	return append(append(dst, out...), tag...)
}
func (a *zzModelAEAD) Open(dst, nonce, ct, ad []byte) ([]byte, error) {
	if len(ct) < 16 {
		return nil, errors.New("zz: short ciphertext")
	}
	n := len(ct) - 16
	ks := verifUFBytes("aead-ks", n, nonce)
	pt := make([]byte, n)
	for i := 0; i < n; i++ {
		pt[i] = ct[i] ^ ks[i]
	}
	if !zzBytesEq(a.tag(nonce, ad, pt), ct[n:]) {
		return nil, errors.New("zz: message authentication failed")
	}
	return append(dst, pt...), nil
}

// injectivity of the tag on the inputs that occurred (stands in for unforgeability)
func (a *zzModelAEAD) assumeInjective() {
	for i := range a.tags {
		for j := 0; j < i; j++ {
			x, y := a.tags[i], a.tags[j]
			if len(x[0]) != len(y[0]) {
				verifAssume(!zzBytesEq(x[1], y[1]))
				continue
			}
			verifAssume(verifOr(zzBytesEq(x[0], y[0]), !zzBytesEq(x[1], y[1])))
		}
	}
}

//verif:harness C25 record_roundtrip_and_tamper unwind=400 paths=100000
//verif:expect intact tampered
//verif:assume the AEAD is modelled by uninterpreted keystream and tag functions; the tag is injective on the inputs that occur (instance-level axiom standing in for unforgeability)
//verif:doc halfConn.encrypt then halfConn.decrypt with the real TLS 1.2 prefix-nonce and TLS 1.3 xor-nonce wrappers around the model AEAD, arbitrary sequence number, nonce material, record type and a payload of 0..3 (thorough 0..11) symbolic bytes: the receiver recovers exactly the payload and content type; flipping any single ciphertext byte (after the record header) makes decrypt return an error.
func zzC25RecordRoundtripAndTamper() {
	tls13 := verifBool("tls13")
	fixed := verifBytes("fixed-nonce", 12)
	shared := &zzModelAEAD{} // one primitive (same key) on both sides; it records every tag it computes
	mk := func() (*halfConn, *zzModelAEAD) {
		inner := shared
		hc := &halfConn{}
		if tls13 {
			w := &xorNonceAEAD{aead: inner}
			copy(w.nonceMask[:], fixed)
			hc.cipher = w
			hc.version = VersionTLS13
		} else {
			w := &prefixNonceAEAD{aead: inner}
			copy(w.nonce[:4], fixed[:4])
			hc.cipher = w
			hc.version = VersionTLS12
		}
		return hc, inner
	}
	out, _ := mk()
	in, inAEAD := mk()
	seq := verifBytes("seq", 8)
	verifAssume(seq[7] != 0xff)
	copy(out.seq[:], seq)
	copy(in.seq[:], seq)
	typ := recordTypeApplicationData
	if verifBool("handshake-record") {
		typ = recordTypeHandshake
	}
	pt := verifBytes("payload", verifChoice("len", zzTierN(4, 12)))
	if tls13 && len(pt) == 0 {
		verifAssume(typ == recordTypeApplicationData) // zero-length handshake records are illegal in TLS 1.3
	}
	// writeRecordLocked hands encrypt a header that already carries the payload length
	rec, err := out.encrypt([]byte{byte(typ), 3, 3, byte(len(pt) >> 8), byte(len(pt))}, pt, zzRandReader{})
	verifAssert(err == nil && len(rec) >= 5 && int(rec[3])<<8|int(rec[4]) == len(rec)-5, "record-length-field")
	if err != nil {
		return
	}
	if verifBool("tamper") {
		verifReach("tampered")
		pos := 5 + verifChoice("pos", len(rec)-5)
		x := verifU8("xor")
		verifAssume(x != 0)
		rec[pos] ^= x
		_, _, derr := in.decrypt(rec)
		inAEAD.assumeInjective()
		verifAssert(derr != nil, "tampered-record-rejected")
		return
	}
	verifReach("intact")
	got, gtyp, derr := in.decrypt(rec)
	verifAssert(derr == nil, "intact-record-accepted")
	if derr == nil {
		verifAssert(zzBytesEq(got, pt) && gtyp == typ, "payload-and-type-recovered")
		verifAssert(in.seq == out.seq, "sequence-numbers-advance-together")
	}
}
