package tls

//verif:harness C22 alps_server_parameters unwind=400
//verif:expect accepted rejected
//verif:doc utlsReadServerParameters from an arbitrary state: server EncryptedExtensions carrying application settings (0..2 arbitrary bytes; thorough 0..7) on either ALPS code point or none, negotiated version 1.2/1.3, negotiated ALPN "h2" / "" (EncryptedExtensions.alpnProtocol, as readServerParameters stores it in clientProtocol), client ApplicationSettings configured for h2: the server's settings are exposed as PeerApplicationSettings; settings below TLS 1.3 or without ALPN are rejected; the client's own settings for the negotiated protocol are selected for its EncryptedExtensions.
func zzC22AlpsServerParameters() {
	mine := []byte{0xaa, 0xbb}
	cfg := &Config{ApplicationSettings: map[string][]byte{"h2": mine}}
	c := &Conn{config: cfg}
	uc := &UConn{Conn: c}
	c.vers = VersionTLS12 + uint16(verifChoice("vers13", 2))
	proto := ""
	if verifBool("alpn-h2") {
		proto = "h2"
	}
	c.clientProtocol = proto // set by readServerParameters from EncryptedExtensions.alpnProtocol
	ee := &encryptedExtensionsMsg{alpnProtocol: proto}
	cp := []uint16{0, 17513, 17613}[verifChoice("codepoint", 3)]
	srv := verifBytes("server-settings", verifChoice("slen", zzTierN(3, 8)))
	ee.utls.applicationSettingsCodepoint = cp
	if cp != 0 {
		ee.utls.applicationSettings = srv
	}
	// TLS 1.3: the ServerHello never carries ALPN (checkServerHelloOrHRR rejects it)
	hs := &clientHandshakeStateTLS13{c: c, uconn: uc, serverHello: &serverHelloMsg{}}
	err := hs.utlsReadServerParameters(ee)
	if err != nil {
		verifReach("rejected")
		verifAssert(cp != 0 && (c.vers < VersionTLS13 || proto == ""), "rejects-only-below-13-or-without-alpn")
		return
	}
	verifReach("accepted")
	if cp != 0 {
		verifAssert(c.vers == VersionTLS13 && proto != "", "accepts-only-at-13-with-alpn")
		st := uc.ConnectionState()
		verifAssert(zzBytesEq(st.PeerApplicationSettings, srv), "peer-settings-exposed")
		verifAssertClass(zzBytesEq(c.utls.localApplicationSettings, mine), "own-settings-for-negotiated-protocol-selected", "lookup-uses-serverhello-alpn")
		verifAssert(c.utls.applicationSettingsCodepoint == cp, "same-codepoint")
	}
}

// zzRecordingWrite captures what sendClientEncryptedExtensions writes.
var zzWrittenMsgs []handshakeMessage
var zzWrittenTranscripts []transcriptHash

func zzStubWriteHandshakeRecord(c *Conn, msg handshakeMessage, transcript transcriptHash) (int, error) {
	zzWrittenMsgs = append(zzWrittenMsgs, msg)
	zzWrittenTranscripts = append(zzWrittenTranscripts, transcript)
	b, err := msg.marshal()
	if err != nil {
		return 0, err
	}
	if transcript != nil {
		transcript.Write(b)
	}
	return len(b), nil
}

//verif:harness C22 alps_client_encrypted_extensions unwind=400
//verif:stub (*utls.Conn).writeHandshakeRecord zzStubWriteHandshakeRecord
//verif:expect end
//verif:doc sendClientEncryptedExtensions: with ALPS negotiated on either code point and arbitrary local settings (0..3 bytes; thorough 0..8) exactly one EncryptedExtensions message is written, into the handshake transcript, whose reference parse is (code point, settings); nothing is written when ALPS was not negotiated; utlsClientEncryptedExtensionsMsg marshal/unmarshal round-trips.
func zzC22AlpsClientEncryptedExtensions() {
	zzWrittenMsgs, zzWrittenTranscripts = nil, nil
	c := &Conn{config: &Config{}}
	cp := []uint16{0, 17513, 17613}[verifChoice("codepoint", 3)]
	local := verifBytes("local", verifChoice("llen", zzTierN(4, 9)))
	c.utls.applicationSettingsCodepoint = cp
	c.utls.localApplicationSettings = local
	tr := &zzUFHash{}
	hs := &clientHandshakeStateTLS13{c: c, transcript: tr}
	err := hs.sendClientEncryptedExtensions()
	verifAssert(err == nil, "no-error")
	if cp == 0 {
		verifAssert(len(zzWrittenMsgs) == 0, "nothing-written-without-alps")
		verifReach("end")
		return
	}
	verifAssert(len(zzWrittenMsgs) == 1 && zzWrittenTranscripts[0] == transcriptHash(tr), "one-message-into-the-transcript")
	if len(zzWrittenMsgs) == 1 {
		b, merr := zzWrittenMsgs[0].marshal()
		verifAssert(merr == nil, "marshals")
		// reference: type 8, uint24 length, uint16 extensions length, (codepoint, uint16 len, settings)
		want := zzCat([]byte{8}, zzVec24(zzVec16(zzTLV(cp, local))))
		verifAssert(zzBytesEq(b, want), "message-equals-reference-encoding")
		verifAssert(len(tr.writes) == 1 && zzBytesEq(tr.writes[0], want), "transcript-covers-the-message")
		var m2 utlsClientEncryptedExtensionsMsg
		verifAssert(m2.unmarshal(b), "unmarshals")
		verifAssert(m2.applicationSettingsCodepoint == cp && zzBytesEq(m2.applicationSettings, local), "round-trip")
	}
	verifReach("end")
}
