package tls

import (
	"errors"
	"hash"
)

// ---- I/O boundary stubs shared by the handshake-kernel harnesses ----

var zzAlerts []alert
var zzErrAlertSent = errors.New("zz: alert sent")

// stub for (*Conn).sendAlert: records the alert, returns an error (contract:
// sendAlert always returns a non-nil error for fatal alerts).
func zzStubSendAlert(c *Conn, a alert) error {
	zzAlerts = append(zzAlerts, a)
	return zzErrAlertSent
}

// scripted inbox for (*Conn).readHandshake
var zzInbox []any
var zzErrInboxEmpty = errors.New("zz: no more scripted handshake messages (EOF)")

func zzStubReadHandshake(c *Conn, transcript transcriptHash) (any, error) {
	if len(zzInbox) == 0 {
		return nil, zzErrInboxEmpty
	}
	m := zzInbox[0]
	zzInbox = zzInbox[1:]
	if transcript != nil {
		if hm, ok := m.(handshakeMessage); ok {
			if err := transcriptMsg(hm, transcript); err != nil {
				return nil, err
			}
		}
	}
	return m, nil
}

// zzUFHash is a hash.Hash whose digest is an uninterpreted function of the
// bytes written (first 64 bytes and the total length feed the UF; the digest is
// 32 bytes). Determinism is all the kernels rely on.
type zzUFHash struct {
	written []byte
	writes  [][]byte
}

func (h *zzUFHash) Write(p []byte) (int, error) {
	h.written = append(h.written, p...)
	h.writes = append(h.writes, append([]byte{}, p...))
	return len(p), nil
}
func (h *zzUFHash) Sum(b []byte) []byte {
	in := h.written
	if len(in) > 48 {
		in = in[:48]
	}
	return append(b, verifUFBytes("transcript", 32, append([]byte{byte(len(h.written)), byte(len(h.written) >> 8)}, in...))...)
}
func (h *zzUFHash) Reset()         { h.written = nil }

// binary marshalling, as cloneHash needs it
func (h *zzUFHash) MarshalBinary() ([]byte, error) { return append([]byte{}, h.written...), nil }
func (h *zzUFHash) UnmarshalBinary(b []byte) error { h.written = append([]byte{}, b...); return nil }
func (h *zzUFHash) Size() int      { return 32 }
func (h *zzUFHash) BlockSize() int { return 64 }

var _ hash.Hash = (*zzUFHash)(nil)
