package tls

import "io"

//verif:harness C05 boring_padding_style unwind=8
//verif:expect end
//verif:doc BoringPaddingStyle(n) for every int n: pads iff 0xff < n < 0x200; then n+4+pad == 512, or pad == 1 when fewer than 5 bytes are missing.
func zzC05BoringPaddingStyle() {
	n := verifInt("n")
	pad, will := BoringPaddingStyle(n)
	if n > 255 && n < 512 {
		verifAssert(will, "pads-in-window")
		if 512-n >= 5 {
			verifAssert(n+4+pad == 512, "padded-to-512")
		} else {
			verifAssert(pad == 1, "one-byte-body-when-too-close")
		}
		verifAssert(pad >= 1, "positive-padding")
	} else {
		verifAssert(!will && pad == 0, "no-padding-outside-window")
	}
	verifReach("end")
}

//verif:harness C05 always_pad_to_len unwind=8
//verif:expect end
//verif:doc AlwaysPadToLen(t)(n) for every (t,n) without overflow of t-n: pads iff n<t; then n+4+pad==t or pad==1 when t-n<5.
func zzC05AlwaysPadToLen() {
	t := verifInt("t")
	n := verifInt("n")
	verifAssume(t >= 0 && t <= 1<<24 && n >= 0 && n <= 1<<24)
	pad, will := AlwaysPadToLen(t)(n)
	if n < t {
		verifAssert(will, "pads-when-shorter")
		if t-n >= 5 {
			verifAssert(n+4+pad == t, "padded-to-target")
		} else {
			verifAssert(pad == 1, "one-byte-body-when-too-close")
		}
	} else {
		verifAssert(!will && pad == 0, "no-padding-when-long-enough")
	}
	verifReach("end")
}

//verif:harness C05 padding_ext_update_read unwind=600 instrs=20000000
//verif:expect end
//verif:doc UtlsPaddingExtension.Update(n) with the BoringSSL rule followed by Len/Read, for every int n in [0,1024]: emits type 21, a length prefix equal to the body, an all-zero body, and total handshake length 512 when padding applies.
func zzC05PaddingExtUpdateRead() {
	n := verifInt("n")
	verifAssume(n >= 0 && n <= 1024)
	e := &UtlsPaddingExtension{GetPaddingLen: BoringPaddingStyle}
	e.Update(n)
	l := e.Len()
	if n > 255 && n < 512 {
		verifAssert(e.WillPad, "will-pad")
		verifAssert(l == 4+e.PaddingLen, "len-is-header-plus-body")
		if 512-n >= 5 {
			verifAssert(n+l == 512, "total-512")
		}
		lc := verifConcretize(l)
		buf := make([]byte, lc)
		k, err := e.Read(buf)
		verifAssert(k == lc && (err == nil || err == io.EOF), "read-writes-len")
		verifAssert(buf[0] == 0 && buf[1] == 21, "type-21")
		verifAssert(int(buf[2])<<8|int(buf[3]) == lc-4, "length-prefix")
		allZero := true
		for _, x := range buf[4:] {
			if x != 0 {
				allZero = false
			}
		}
		verifAssert(allZero, "body-all-zero")
	} else {
		verifAssert(!e.WillPad && l == 0, "absent-outside-window")
	}
	verifReach("end")
}
