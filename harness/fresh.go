package tls

// "Fresh for each new connection" (C04, C16, C18): two connections of the same
// parrot are built on one path, each drawing its own randomness; a value is
// fresh iff it is POSSIBLE for the two connections to differ in it
// (verifAssertPossible: the solver must find an assignment where they differ).
// A value cached per process, derived from constants, or copied from the first
// connection is forced equal and is reported.

func zzTwoHellos(p zzParrot) (a, b zzRefHello, ok bool) {
	// extension shuffling is irrelevant to freshness: identity permutation on both
	zzNoShuffle = true
	defer func() { zzNoShuffle = false }()
	cfg1 := zzConfig("example.com")
	cfg1.OmitEmptyPsk = true
	u1, _, err1 := zzBuild(p.id, cfg1)
	cfg2 := zzConfig("example.com")
	cfg2.OmitEmptyPsk = true
	u2, _, err2 := zzBuild(p.id, cfg2)
	if err1 != nil || err2 != nil {
		return a, b, false
	}
	var w1, w2 string
	a, w1 = zzRefParseClientHello(u1.HandshakeState.Hello.Raw)
	b, w2 = zzRefParseClientHello(u2.HandshakeState.Hello.Raw)
	return a, b, w1 == "" && w2 == ""
}

func zzDiffer(x, y []byte) bool {
	if len(x) != len(y) {
		return true
	}
	return !zzBytesEq(x, y)
}

//verif:harness C18 fresh_per_connection unwind=4000 instrs=900000000 paths=20000 wall=900
//verif:stub (*math/rand.Rand).Shuffle zzStubShuffleIdentity
//verif:expect end
//verif:doc Two connections of the same parrot (every predefined parrot; all randomness symbolic, each connection drawing its own): it is possible for them to differ in the client random, in the session id, and in the key bytes of every non-GREASE key share - i.e. none of these is cached, constant or copied from another connection.
func zzC18FreshPerConnection() {
	p := zzChooseParrot()
	a, b, ok := zzTwoHellos(p)
	if !ok {
		verifReach("end")
		return
	}
	verifAssertPossible(zzDiffer(a.random, b.random), "client-random-fresh-per-connection", p.name)
	if len(a.sessionID) > 0 {
		verifAssertPossible(zzDiffer(a.sessionID, b.sessionID), "session-id-fresh-per-connection", p.name)
	}
	ka, hasA := a.ext(51)
	kb, hasB := b.ext(51)
	if hasA && hasB {
		_, _, keysA, okA := zzKeyShareEntries(ka)
		_, _, keysB, okB := zzKeyShareEntries(kb)
		if okA && okB && len(keysA) == len(keysB) {
			for i := range keysA {
				if len(keysA[i]) >= 32 {
					verifAssertPossible(zzDiffer(keysA[i], keysB[i]), "key-share-fresh-per-connection", p.name)
				}
			}
		}
	}
	verifReach("end")
}

//verif:harness C16 grease_ech_fresh_per_connection unwind=4000 instrs=900000000 paths=20000 wall=900
//verif:stub (*math/rand.Rand).Shuffle zzStubShuffleIdentity
//verif:expect end
//verif:doc Two connections of the same parrot carrying a GREASE ECH extension: it is possible for them to differ in the config id, in the encapsulated key and in the payload (each is fresh for each new connection).
func zzC16GreaseECHFreshPerConnection() {
	p := zzChooseParrot()
	a, b, ok := zzTwoHellos(p)
	ea, hasA := a.ext(0xfe0d)
	eb, hasB := b.ext(0xfe0d)
	if !ok || !hasA || !hasB || len(ea) < 8+32+2 || len(eb) != len(ea) {
		verifReach("end")
		return
	}
	verifAssertPossible(ea[5] != eb[5], "ech-config-id-fresh-per-connection", p.name)
	verifAssertPossible(zzDiffer(ea[8:40], eb[8:40]), "ech-encapsulated-key-fresh-per-connection", p.name)
	verifAssertPossible(zzDiffer(ea[42:], eb[42:]), "ech-payload-fresh-per-connection", p.name)
	verifReach("end")
}

//verif:harness C04 grease_varies_across_connections unwind=4000 instrs=900000000 paths=20000 wall=900
//verif:stub (*math/rand.Rand).Shuffle zzStubShuffleIdentity
//verif:expect end
//verif:doc Two connections of the same parrot: wherever the first hello carries a GREASE cipher suite, GREASE group, GREASE extension code point or GREASE version, it is possible for the second hello's value at the same position to differ (GREASE values vary across connections; none is a constant).
func zzC04GreaseVariesAcrossConnections() {
	p := zzChooseParrot()
	a, b, ok := zzTwoHellos(p)
	if !ok || len(a.suites) != len(b.suites) || len(a.exts) != len(b.exts) {
		verifReach("end")
		return
	}
	spec, _ := zzRefSpec(p.id)
	for i, s := range spec.CipherSuites {
		if zzRefIsGREASE16Concrete(s) && i < len(a.suites) {
			verifAssertPossible(a.suites[i] != b.suites[i], "grease-suite-varies", p.name)
		}
	}
	nshuffle := 0
	for i, e := range spec.Extensions {
		if i >= len(a.exts) {
			break
		}
		switch x := e.(type) {
		case *UtlsGREASEExtension:
			_ = x
			nshuffle++
		}
	}
	// GREASE extension code points: position-independent check (shuffling parrots move them)
	var ga, gb []uint16
	for i := range a.exts {
		if zzRefIsGREASE16(a.exts[i].typ) && zzRefIsGREASE16(b.exts[i].typ) {
			if verifConcretizeBool(zzRefIsGREASE16(a.exts[i].typ)) && verifConcretizeBool(zzRefIsGREASE16(b.exts[i].typ)) {
				ga = append(ga, a.exts[i].typ)
				gb = append(gb, b.exts[i].typ)
			}
		}
	}
	for i := range ga {
		verifAssertPossible(ga[i] != gb[i], "grease-extension-varies", p.name)
	}
	ba, hasA := a.ext(10)
	bb, hasB := b.ext(10)
	if hasA && hasB {
		la, _ := zzRefU16ListBody(ba, 2)
		lb, _ := zzRefU16ListBody(bb, 2)
		for i := range la {
			if i < len(lb) && zzRefIsGREASE16Concrete(uint16(specCurve(spec, i))) {
				verifAssertPossible(la[i] != lb[i], "grease-group-varies", p.name)
			}
		}
	}
	va, hasVA := a.ext(43)
	vb, hasVB := b.ext(43)
	if hasVA && hasVB {
		la, _ := zzRefU16ListBody(va, 1)
		lb, _ := zzRefU16ListBody(vb, 1)
		for i := range la {
			if i < len(lb) && verifConcretizeBool(zzRefIsGREASE16(la[i])) {
				verifAssertPossible(la[i] != lb[i], "grease-version-varies", p.name)
			}
		}
	}
	verifReach("end")
}

//verif:harness C18 fingerprinted_spec_shares_regenerated unwind=4000 instrs=900000000 paths=2000 wall=900
//verif:expect end
//verif:assume crypto/ecdh and crypto/mlkem produce keys of their documented sizes with arbitrary bytes
//verif:doc A spec fingerprinted from a captured hello whose key_share carries a share for one of {X25519, P-256, P-384, X25519MLKEM768, X25519Kyber768Draft00} (key bytes of the capture symbolic in the first and last position), optionally preceded by a GREASE share, applied to a new connection: the share on the wire has the group's size, equals the public bytes of the key pair(s) generated for this connection and retained in KeyShareKeys, and is not forced to equal the captured bytes (a replayed capture is reported).
func zzC18FingerprintedSpecSharesRegenerated() {
	groups := []uint16{29, 23, 24, 0x11ec, 0x6399}
	sizes := []int{32, 65, 97, 1216, 1216}
	gi := verifChoice("group", len(groups))
	g, n := groups[gi], sizes[gi]
	captured := make([]byte, n)
	captured[0] = verifU8("captured-first")
	captured[n-1] = verifU8("captured-last")
	if g == 23 || g == 24 {
		captured[0] = 4
	}
	shares := zzCat(zzU16(g), zzVec16(captured))
	groupsList := zzU16(g)
	if verifBool("grease-share-first") {
		shares = zzCat([]byte{0x1a, 0x1a, 0, 1, 0}, shares)
		groupsList = zzCat([]byte{0x1a, 0x1a}, groupsList)
	}
	capt := zzCaptureHello("capture.example", zzTLV(10, zzVec16(groupsList)), zzTLV(13, zzVec16([]byte{4, 3})), zzTLV(43, zzVec8([]byte{3, 4})), zzTLV(51, zzVec16(shares)))
	if _, why := zzRefParseClientHello(capt); why != "" {
		verifFail("capture-is-valid", why)
		return
	}
	uc, ferr, berr := zzReapply(&Fingerprinter{}, zzRecord(capt), "replayd.example")
	verifAssertClass(ferr == nil && berr == nil, "fingerprint-and-reapply-succeed", "share-regeneration")
	if ferr != nil || berr != nil {
		return
	}
	h, why := zzRefParseClientHello(uc.HandshakeState.Hello.Raw)
	verifAssertClass(why == "", "hello-parses-strictly", why)
	b, has := h.ext(51)
	gs, ls, ks, ok := zzKeyShareEntries(b)
	verifAssertClass(why == "" && has && ok && len(gs) >= 1, "key-share-present", "share-regeneration")
	if why != "" || !has || !ok || len(gs) == 0 {
		return
	}
	i := len(gs) - 1
	verifAssertClass(gs[i] == g && ls[i] == n, "key-share-group-and-size", "share-regeneration")
	if gs[i] != g || ls[i] != n {
		return
	}
	keys := uc.HandshakeState.State13.KeyShareKeys
	switch g {
	case 29, 23, 24:
		verifAssertClass(keys != nil && keys.Ecdhe != nil && zzBytesEq(ks[i], keys.Ecdhe.PublicKey().Bytes()), "share-backed-by-retained-key", "share-regeneration")
	case 0x11ec:
		verifAssertClass(keys != nil && keys.Mlkem != nil && keys.MlkemEcdhe != nil && zzBytesEq(ks[i][:1184], keys.Mlkem.EncapsulationKey().Bytes()) && zzBytesEq(ks[i][1184:], keys.MlkemEcdhe.PublicKey().Bytes()), "share-backed-by-retained-key", "share-regeneration")
	case 0x6399:
		verifAssertClass(keys != nil && keys.Mlkem != nil && keys.MlkemEcdhe != nil && zzBytesEq(ks[i][:32], keys.MlkemEcdhe.PublicKey().Bytes()) && zzBytesEq(ks[i][32:], keys.Mlkem.EncapsulationKey().Bytes()), "share-backed-by-retained-key", "share-regeneration")
	}
	verifAssertPossible(zzDiffer(ks[i], captured), "share-not-a-replay-of-the-capture", "share-regeneration")
	verifReach("end")
}
