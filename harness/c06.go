package tls

// zzRecord wraps a handshake message in a TLS record header (what a capture
// contains and what FromRaw expects).
func zzRecord(hs []byte) []byte { return zzCat([]byte{22, 3, 1}, zzVec16(hs)) }

// zzShapeEqual asserts that two strictly parsed hellos have the same shape in
// the sense of C06: same legacy version, suites, compression, extension order
// and bodies, modulo GREASE values and per-connection material; same total
// length when lenToo.
func zzShapeEqual(a, b *zzRefHello, rawA, rawB []byte, class string, lenToo bool) {
	verifAssertClass(a.legacyVersion == b.legacyVersion, "same-legacy-version", class)
	verifAssertClass(len(a.suites) == len(b.suites), "same-suite-count", class)
	for i := range a.suites {
		if i < len(b.suites) {
			x, y := a.suites[i], b.suites[i]
			verifAssertClass(verifOr(x == y, verifAnd(zzRefIsGREASE16(x), zzRefIsGREASE16(y))), "same-cipher-suites", class)
		}
	}
	verifAssertClass(zzBytesEq(a.compression, b.compression), "same-compression", class)
	verifAssertClass(len(a.exts) == len(b.exts), "same-extension-count", class)
	for i := range a.exts {
		if i >= len(b.exts) {
			break
		}
		x, y := a.exts[i], b.exts[i]
		verifAssertClass(verifOr(x.typ == y.typ, verifAnd(zzRefIsGREASE16(x.typ), zzRefIsGREASE16(y.typ))), "same-extension-order", class)
		if zzRefIsGREASE16(x.typ) {
			// GREASE extension: code point varies, body is kept
			verifAssertClass(zzBytesEq(x.body, y.body), "same-extension-body", class)
			continue
		}
		t := verifConcretizeU16(x.typ)
		switch {
		case t == 0:
			verifAssertClass(len(x.body) == len(y.body), "sni-same-size", class)
		case t == 51:
			g1, l1, k1, ok1 := zzKeyShareEntries(x.body)
			g2, l2, k2, ok2 := zzKeyShareEntries(y.body)
			verifAssertClass(ok1 && ok2 && len(g1) == len(g2), "same-key-share-count", class)
			for j := range g1 {
				if j < len(g2) {
					gg := verifAnd(zzRefIsGREASE16(g1[j]), zzRefIsGREASE16(g2[j]))
					verifAssertClass(verifOr(g1[j] == g2[j], gg), "same-key-share-groups", class)
					verifAssertClass(l1[j] == l2[j], "same-key-share-sizes", class)
					_ = k1
					_ = k2
				}
			}
		case t == 21, t == 35, t == 41:
			// padding length (checked through the total length), ticket, PSK
		case t == 0xfe0d:
			verifAssertClass(len(x.body) == len(y.body), "ech-same-size", class)
			if len(x.body) >= 5 && len(y.body) >= 5 {
				verifAssertClass(zzBytesEq(x.body[:5], y.body[:5]), "ech-same-type-and-suite", class)
			}
		case t == 10, t == 43:
			lb := 2
			if t == 43 {
				lb = 1
			}
			v1, ok1 := zzRefU16ListBody(x.body, lb)
			v2, ok2 := zzRefU16ListBody(y.body, lb)
			verifAssertClass(ok1 && ok2 && len(v1) == len(v2), "same-list-length", class)
			for j := range v1 {
				if j < len(v2) {
					verifAssertClass(verifOr(v1[j] == v2[j], verifAnd(zzRefIsGREASE16(v1[j]), zzRefIsGREASE16(v2[j]))), "same-list-modulo-grease", class)
				}
			}
		default:
			verifAssertClass(zzBytesEq(x.body, y.body), "same-extension-body", class)
		}
	}
	if lenToo {
		verifAssertClass(len(rawA) == len(rawB), "same-total-length", class)
	}
}

// zzReapply fingerprints rec (a record containing a ClientHello) and builds a
// new hello from the spec with a server name of the same length.
func zzReapply(f *Fingerprinter, rec []byte, name string) (*UConn, error, error) {
	spec, ferr := f.FingerprintClientHello(rec)
	if ferr != nil {
		return nil, ferr, nil
	}
	cfg := zzConfig(name)
	cfg.OmitEmptyPsk = true
	uc := UClient(&zzRecConn{}, cfg, HelloCustom)
	if err := uc.ApplyPreset(spec); err != nil {
		return nil, nil, err
	}
	return uc, nil, uc.BuildHandshakeState()
}

//verif:harness C06 parrot_fingerprint_reapply unwind=4000 instrs=600000000 paths=300000 wall=3600
//verif:stub (*math/rand.Rand).Shuffle zzStubShuffle
//verif:expect end
//verif:doc For the hello of every predefined parrot (thorough; every fifth parrot in the quick tier) with all random bytes symbolic: FingerprintClientHello (flags AllowBluntMimicry / AlwaysAddPadding symbolic) then ApplyPreset + BuildHandshakeState with a different server name of the same length yields a hello of the same shape (C06 normaliser) and the same total length; fingerprinting the regenerated hello again yields the same shape (idempotence).
func zzC06ParrotFingerprintReapply() {
	p := zzChooseParrotSample()
	cfg := zzConfig("example.com")
	cfg.OmitEmptyPsk = true
	uc, _, err := zzBuild(p.id, cfg)
	if err != nil {
		verifReach("end")
		return
	}
	raw1 := append([]byte{}, uc.HandshakeState.Hello.Raw...)
	h1, why := zzRefParseClientHello(raw1)
	verifAssertClass(why == "", "source-hello-parses", p.name+":"+why)
	f := &Fingerprinter{AllowBluntMimicry: verifBool("blunt")}
	uc2, ferr, berr := zzReapply(f, zzRecord(raw1), "foobar1.org")
	verifAssertClass(ferr == nil, "fingerprint-succeeds", p.name)
	verifAssertClass(berr == nil, "reapply-succeeds", p.name)
	if ferr != nil || berr != nil {
		verifReach("end")
		return
	}
	raw2 := append([]byte{}, uc2.HandshakeState.Hello.Raw...)
	h2, why2 := zzRefParseClientHello(raw2)
	verifAssertClass(why2 == "", "regenerated-hello-parses-strictly", p.name+":"+why2)
	if why2 == "" {
		zzShapeEqual(&h1, &h2, raw1, raw2, p.name, true)
		uc3, ferr3, berr3 := zzReapply(f, zzRecord(raw2), "example.com")
		verifAssertClass(ferr3 == nil && berr3 == nil, "second-fingerprint-succeeds", p.name)
		if ferr3 == nil && berr3 == nil {
			raw3 := uc3.HandshakeState.Hello.Raw
			h3, why3 := zzRefParseClientHello(raw3)
			verifAssertClass(why3 == "", "idempotent-hello-parses", p.name+":"+why3)
			if why3 == "" {
				zzShapeEqual(&h2, &h3, raw2, raw3, p.name+":idempotence", true)
			}
		}
	}
	verifReach("end")
}

// zzCaptureHello builds a syntactically valid ClientHello from parts.
func zzCaptureHello(sni string, exts ...[]byte) []byte {
	var eb []byte
	if sni != "" {
		eb = append(eb, zzTLV(0, zzVec16(zzCat([]byte{0}, zzVec16([]byte(sni)))))...)
	}
	for _, e := range exts {
		eb = append(eb, e...)
	}
	body := zzCat([]byte{3, 3}, make([]byte, 32), zzVec8(make([]byte, 32)), zzVec16([]byte{0x13, 0x01, 0xc0, 0x2f}), []byte{1, 0}, zzVec16(eb))
	return zzCat([]byte{1}, zzVec24(body))
}

//verif:harness C06 padded_capture_length unwind=4000 instrs=600000000 paths=80000 wall=900
//verif:expect end
//verif:doc C05/C06: a captured hello with a non-empty padding extension of every body length L in a stated set (1, 7, 100, 253, 300, and the L that makes the total exactly 512), fingerprinted and re-applied with a different server name of the captured length, has the captured total length, exactly one all-zero padding extension and the same shape.
func zzC06PaddedCaptureLength() {
	base := zzCaptureHello("capture.example", zzTLV(10, zzVec16([]byte{0, 29})), zzTLV(13, zzVec16([]byte{4, 3})), zzTLV(43, zzVec8([]byte{3, 4})), zzTLV(51, zzVec16(zzCat([]byte{0, 29}, zzVec16(make([]byte, 32))))))
	to512 := 512 - len(base) - 4
	ls := []int{1, 7, 100, 253, 300, to512}
	l := ls[verifChoice("padlen", len(ls))]
	capt := zzCaptureHello("capture.example", zzTLV(10, zzVec16([]byte{0, 29})), zzTLV(13, zzVec16([]byte{4, 3})), zzTLV(43, zzVec8([]byte{3, 4})), zzTLV(51, zzVec16(zzCat([]byte{0, 29}, zzVec16(make([]byte, 32))))), zzTLV(21, make([]byte, l)))
	h1, why := zzRefParseClientHello(capt)
	verifAssertClass(why == "", "capture-is-valid", why)
	f := &Fingerprinter{AllowBluntMimicry: verifBool("blunt")}
	uc2, ferr, berr := zzReapply(f, zzRecord(capt), "replayd.example")
	verifAssertClass(ferr == nil && berr == nil, "fingerprint-and-reapply-succeed", "padded-capture")
	if ferr == nil && berr == nil {
		raw2 := uc2.HandshakeState.Hello.Raw
		h2, why2 := zzRefParseClientHello(raw2)
		verifAssertClass(why2 == "", "regenerated-hello-parses-strictly", why2)
		if why2 == "" {
			verifAssertClass(len(raw2) == len(capt), "captured-total-length-reproduced", "padded-capture")
			npad := 0
			for _, e := range h2.exts {
				if e.typ == 21 {
					npad++
					for _, x := range e.body {
						verifAssertClass(x == 0, "padding-body-zero", "padded-capture")
					}
				}
			}
			verifAssertClass(npad == 1, "exactly-one-padding-extension", "padded-capture")
			zzShapeEqual(&h1, &h2, capt, raw2, "padded-capture", false)
		}
	}
	verifReach("end")
}

//verif:harness C06 capture_with_unsupported_share unwind=4000 instrs=600000000 paths=80000 wall=900
//verif:expect end
//verif:doc C02/C06: a valid capture carrying a key share for a group chosen among {X25519, P-256, x448 (30), ffdhe2048 (256), an arbitrary 16-bit group}, fingerprinted and re-applied: either an error is returned (a share utls cannot generate) or the regenerated hello passes the strict grammar (in particular no empty key_exchange) with the same shape.
func zzC06CaptureWithUnsupportedShare() {
	gs := []uint16{29, 23, 30, 256, verifU16("group")}
	wi := verifChoice("which", len(gs))
	g := gs[wi]
	klen := 1 + verifChoice("keylen", 3)
	if wi == 0 {
		klen = 32
	} else if wi == 1 {
		klen = 65
	} else if wi == 4 {
		verifAssume(g != 29 && g != 23 && g != 24 && g != 25 && g != 0x11ec && g != 0x6399)
	}
	capt := zzCaptureHello("capture.example", zzTLV(10, zzVec16(zzCat(zzU16(g), []byte{0, 29}))), zzTLV(13, zzVec16([]byte{4, 3})), zzTLV(43, zzVec8([]byte{3, 4})),
		zzTLV(51, zzVec16(zzCat(zzU16(g), zzVec16(make([]byte, klen))))))
	h1, why := zzRefParseClientHello(capt)
	verifAssertClass(why == "", "capture-is-valid", why)
	f := &Fingerprinter{}
	uc2, ferr, berr := zzReapply(f, zzRecord(capt), "replayd.example")
	if ferr != nil || berr != nil {
		verifReach("end")
		return
	}
	raw2 := uc2.HandshakeState.Hello.Raw
	h2, ok := zzCheckHelloSyntax(raw2, "unsupported-share")
	if ok {
		zzShapeEqual(&h1, &h2, capt, raw2, "unsupported-share", false)
	}
	verifReach("end")
}

//verif:harness C06 capture_with_arbitrary_values unwind=4000 instrs=600000000 paths=80000 wall=900
//verif:expect end
//verif:doc A valid capture whose list-valued fields each contain one ARBITRARY 16-bit / 8-bit value besides ordinary ones (a cipher suite, a supported group without share, a signature algorithm, a certificate-compression algorithm, a PSK mode, a point format, one ALPN protocol byte), fingerprinted and re-applied: either an error is returned or the regenerated hello has the same shape (every value kept in place; GREASE values may change to other GREASE values) and the same total length. A value the code special-cases (drops, rewrites, reorders) shows up as a solver counterexample.
func zzC06CaptureWithArbitraryValues() {
	suite := verifU16("suite")
	group := verifU16("group")
	verifAssume(group != 29)
	sig := verifU16("sigalg")
	comp := verifU16("cert-compression")
	mode := verifU8("psk-mode")
	pf := verifU8("point-format")
	ab := verifU8("alpn-byte")
	var eb []byte
	eb = append(eb, zzTLV(0, zzVec16(zzCat([]byte{0}, zzVec16([]byte("capture.example")))))...)
	eb = append(eb, zzTLV(10, zzVec16(zzCat(zzU16(group), []byte{0, 29})))...)
	eb = append(eb, zzTLV(11, zzVec8([]byte{0, pf}))...)
	eb = append(eb, zzTLV(13, zzVec16(zzCat([]byte{4, 3}, zzU16(sig))))...)
	eb = append(eb, zzTLV(16, zzVec16(zzCat(zzVec8([]byte{'h', '2'}), zzVec8([]byte{'x', ab}))))...)
	eb = append(eb, zzTLV(27, zzVec8(zzCat([]byte{0, 2}, zzU16(comp))))...)
	eb = append(eb, zzTLV(43, zzVec8([]byte{3, 4}))...)
	eb = append(eb, zzTLV(45, zzVec8([]byte{1, mode}))...)
	eb = append(eb, zzTLV(51, zzVec16(zzCat([]byte{0, 29}, zzVec16(make([]byte, 32)))))...)
	body := zzCat([]byte{3, 3}, make([]byte, 32), zzVec8(make([]byte, 32)), zzVec16(zzCat([]byte{0x13, 0x01}, zzU16(suite), []byte{0xc0, 0x2f})), []byte{1, 0}, zzVec16(eb))
	capt := zzCat([]byte{1}, zzVec24(body))
	h1, why := zzRefParseClientHello(capt)
	verifAssertClass(why == "", "capture-is-valid", why)
	if why != "" {
		return
	}
	f := &Fingerprinter{AllowBluntMimicry: verifBool("blunt")}
	uc2, ferr, berr := zzReapply(f, zzRecord(capt), "replayd.example")
	if ferr != nil || berr != nil {
		verifReach("end")
		return
	}
	raw2 := uc2.HandshakeState.Hello.Raw
	h2, why2 := zzRefParseClientHello(raw2)
	verifAssertClass(why2 == "", "regenerated-hello-parses-strictly", "arbitrary-values:"+why2)
	if why2 == "" {
		zzShapeEqual(&h1, &h2, capt, raw2, "arbitrary-values", true)
	}
	verifReach("end")
}

//verif:harness C06 randomized_fingerprint_reapply unwind=4000 instrs=600000000 paths=400000 wall=1500
//verif:stub utls.newPRNGWithSeed zzStubNewPRNGWithSeed
//verif:stub utls.newPRNGWithSaltedSeed zzStubNewPRNGWithSaltedSeed
//verif:stub (*utls.prng).FlipWeightedCoin zzStubFlipWeightedCoin
//verif:stub (*utls.prng).Intn zzStubPrngIntn
//verif:stub (*utls.prng).Perm zzStubPrngPerm
//verif:stub (*math/rand.Rand).Shuffle zzStubShuffleIdentity
//verif:expect end
//verif:assume the seeded PRNG stream is arbitrary (every coin an SMT variable), permutations are the identity (C09's stubs)
//verif:doc The hello of a randomized ClientHelloID (three variants, symbolic seed, default weights, every structural coin arbitrary; the eight coins that only add an independent extension or algorithm tied to one bit) fingerprinted and re-applied with a server name of the same length yields a hello of the same shape and the same total length (C06 normaliser).
func zzC06RandomizedFingerprintReapply() {
	zzPrngs, zzPrngStreams = nil, nil
	var seed PRNGSeed
	copy(seed[:], verifBytes("seed", 32))
	w := DefaultWeights
	other := zzW("other-weights", false)
	w.SigAndHashAlgos_Append_ECDSAWithSHA1 = other
	w.SigAndHashAlgos_Append_ECDSAWithP521AndSHA512 = other
	w.SigAndHashAlgos_Append_PSSWithSHA384_PSSWithSHA512 = other
	w.CurveIDs_Append_CurveP521 = other
	w.Extensions_Append_Status = other
	w.Extensions_Append_SCT = other
	w.Extensions_Append_Reneg = other
	w.Extensions_Append_EMS = other
	w.CipherSuites_Remove_RandomCiphers = 0
	clients := []string{helloRandomized, helloRandomizedALPN, helloRandomizedNoALPN}
	id := ClientHelloID{Client: clients[verifChoice("variant", 3)], Version: helloAutoVers, Seed: &seed, Weights: &w}
	cfg := zzConfig("example.com")
	uc := UClient(&zzRecConn{}, cfg, id)
	if err := uc.BuildHandshakeState(); err != nil {
		verifFail("randomized-hello-builds", "")
		return
	}
	raw1 := append([]byte{}, uc.HandshakeState.Hello.Raw...)
	h1, why := zzRefParseClientHello(raw1)
	verifAssertClass(why == "", "source-hello-parses", "randomized:"+why)
	if why != "" {
		return
	}
	uc2, ferr, berr := zzReapply(&Fingerprinter{}, zzRecord(raw1), "foobar1.org")
	verifAssertClass(ferr == nil && berr == nil, "fingerprint-and-reapply-succeed", "randomized")
	if ferr != nil || berr != nil {
		return
	}
	raw2 := uc2.HandshakeState.Hello.Raw
	h2, why2 := zzRefParseClientHello(raw2)
	verifAssertClass(why2 == "", "regenerated-hello-parses-strictly", "randomized:"+why2)
	if why2 == "" {
		zzShapeEqual(&h1, &h2, raw1, raw2, "randomized", true)
	}
	verifReach("end")
}
