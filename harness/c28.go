package tls

import "crypto/cipher"

// zzStreamAEAD: an AEAD that is a stream cipher in its first len(plaintext)
// bytes (true of AES-GCM and ChaCha20-Poly1305): ciphertext = plaintext XOR
// KS(nonce), followed by a 16-byte tag; KS is an uninterpreted function of the
// 12-byte nonce. It records the nonces it is called with.
type zzStreamAEAD struct{ nonces [][]byte }

func (a *zzStreamAEAD) NonceSize() int { return 12 }
func (a *zzStreamAEAD) Overhead() int  { return 16 }
func (a *zzStreamAEAD) Seal(dst, nonce, plaintext, ad []byte) []byte {
	a.nonces = append(a.nonces, append([]byte{}, nonce...))
	ks := verifUFBytes("keystream", len(plaintext), nonce)
	out := make([]byte, len(plaintext)+16)
	for i := range plaintext {
		out[i] = plaintext[i] ^ ks[i]
	}
	copy(out[len(plaintext):], verifUFBytes("tag", 16, nonce))
	return append(dst, out...)
}
func (a *zzStreamAEAD) Open(dst, nonce, ct, ad []byte) ([]byte, error) { return nil, zzErrAlertSent }

var _ cipher.AEAD = (*zzStreamAEAD)(nil)

//verif:harness C28 out_keystream_is_next_record unwind=400
//verif:expect end
//verif:assume the AEAD is a stream cipher in its first n bytes with a keystream that is a function of the nonce (uninterpreted); true of AES-GCM and ChaCha20-Poly1305
//verif:doc GetOutKeystream(n) for the real TLS 1.2 prefix-nonce and TLS 1.3 xor-nonce wrappers, an arbitrary 64-bit sequence number, arbitrary nonce prefix/mask and n in 0..3 (thorough: 0..17, i.e. across an AES block boundary): XORed with the next n plaintext bytes it equals the first n ciphertext bytes of the next application-data record after any explicit nonce (halfConn.encrypt runs for real); the call leaves the sequence number and the wrapper state unchanged, and zero, one or two earlier calls with longer lengths (40, then 2 bytes) do not change its result.
func zzC28OutKeystreamIsNextRecord() {
	inner := &zzStreamAEAD{}
	c := &Conn{config: &Config{}}
	uc := &UConn{Conn: c}
	tls13 := verifBool("tls13")
	fixed := verifBytes("fixed-nonce", 12)
	var wrapped aead
	if tls13 {
		w := &xorNonceAEAD{aead: inner}
		copy(w.nonceMask[:], fixed)
		wrapped = w
		c.out.version = VersionTLS13
	} else {
		w := &prefixNonceAEAD{aead: inner}
		copy(w.nonce[:4], fixed[:4])
		wrapped = w
		c.out.version = VersionTLS12
	}
	c.out.cipher = wrapped
	copy(c.out.seq[:], verifBytes("seq", 8))
	verifAssume(c.out.seq[7] != 0xff) // no carry into the harness' copy of the counter
	seqBefore := c.out.seq
	// earlier calls with other lengths must not influence this one (no scratch
	// state survives a call): none, one of 40 bytes, or 40 then 2 bytes
	for i, k := 0, verifChoice("earlier-calls", 3); i < k; i++ {
		prev, perr := uc.GetOutKeystream([]int{40, 2}[i])
		verifAssert(perr == nil && len(prev) == []int{40, 2}[i]+16, "earlier-call-succeeds")
	}
	inner.nonces = nil
	n := verifChoice("n", zzTierN(4, 18))
	ks, err := uc.GetOutKeystream(n)
	verifAssert(err == nil && len(ks) == n+16, "keystream-length-n-plus-tag")
	verifAssert(c.out.seq == seqBefore, "sequence-number-unchanged")
	pt := verifBytes("plaintext", n)
	hdr := []byte{byte(recordTypeApplicationData), 3, 3, 0, 0}
	rec, eerr := c.out.encrypt(hdr, pt, zzRandReader{})
	verifAssert(eerr == nil, "encrypt-succeeds")
	if eerr == nil && err == nil {
		off := 5
		if !tls13 {
			off += 8 // explicit nonce
		}
		verifAssert(len(rec) >= off+n, "record-long-enough")
		for i := 0; i < n; i++ {
			verifAssert(rec[off+i] == ks[i]^pt[i], "keystream-xor-plaintext-is-ciphertext")
		}
		verifAssert(len(inner.nonces) == 2 && zzBytesEq(inner.nonces[0], inner.nonces[1]), "same-nonce-for-keystream-and-record")
	}
	verifReach("end")
}
