package tls

import (
	"crypto/cipher"
	"hash"
)

// Opaque primitives that remember what they were built from.
type zzCipherObj struct {
	kind   string
	key    []byte
	iv     []byte
	isRead bool
}
type zzMacObj struct {
	zzUFHash
	key []byte
}
type zzAeadObj struct {
	kind  string
	key   []byte
	nonce []byte
}

func (a *zzAeadObj) NonceSize() int        { return 12 }
func (a *zzAeadObj) Overhead() int         { return 16 }
func (a *zzAeadObj) explicitNonceLen() int { return 8 }
func (a *zzAeadObj) Seal(dst, nonce, plaintext, additionalData []byte) []byte {
	return append(dst, verifUFBytes("aead-seal", len(plaintext)+16, zzCat(a.key[:1], nonce, plaintext))...)
}
func (a *zzAeadObj) Open(dst, nonce, ciphertext, additionalData []byte) ([]byte, error) {
	return nil, zzErrAlertSent
}

var _ cipher.AEAD = (*zzAeadObj)(nil)
var _ hash.Hash = (*zzMacObj)(nil)

func zzStubCipherRC4(key, iv []byte, isRead bool) any  { return &zzCipherObj{"rc4", key, iv, isRead} }
func zzStubCipher3DES(key, iv []byte, isRead bool) any { return &zzCipherObj{"3des", key, iv, isRead} }
func zzStubCipherAES(key, iv []byte, isRead bool) any  { return &zzCipherObj{"aes-cbc", key, iv, isRead} }
func zzStubMacSHA1(key []byte) hash.Hash                { return &zzMacObj{key: key} }
func zzStubMacSHA256(key []byte) hash.Hash              { return &zzMacObj{key: key} }
func zzStubAeadAESGCM(key, np []byte) aead              { return &zzAeadObj{"aes-gcm", key, np} }
func zzStubAeadChaCha(key, np []byte) aead              { return &zzAeadObj{"chacha", key, np} }

// keysFromMasterSecret: the PRF is an uninterpreted function; the six outputs
// are tagged so that the harness can tell which key went where.
func zzStubKeysFromMasterSecret(version uint16, suite *cipherSuite, masterSecret, clientRandom, serverRandom []byte, macLen, keyLen, ivLen int) (clientMAC, serverMAC, clientKey, serverKey, clientIV, serverIV []byte) {
	mk := func(tag byte, n int) []byte {
		b := make([]byte, n+1) // +1 so that the tag survives zero lengths
		b[0] = tag
		return b
	}
	return mk(1, macLen), mk(2, macLen), mk(3, keyLen), mk(4, keyLen), mk(5, ivLen), mk(6, ivLen)
}

func zzCipherTags(c any) (keyTag, ivTag byte, isRead, isBlock bool, ok bool) {
	switch x := c.(type) {
	case *zzCipherObj:
		return x.key[0], x.iv[0], x.isRead, x.kind != "rc4", true
	case *zzAeadObj:
		return x.key[0], x.nonce[0], false, false, true
	}
	return 0, 0, false, false, false
}

//verif:harness C27 forged_connection_keys unwind=4000
//verif:stub utls.keysFromMasterSecret zzStubKeysFromMasterSecret
//verif:stub utls.cipherRC4 zzStubCipherRC4
//verif:stub utls.cipher3DES zzStubCipher3DES
//verif:stub utls.cipherAES zzStubCipherAES
//verif:stub utls.macSHA1 zzStubMacSHA1
//verif:stub utls.macSHA256 zzStubMacSHA256
//verif:stub utls.aeadAESGCM zzStubAeadAESGCM
//verif:stub utls.aeadChaCha20Poly1305 zzStubAeadChaCha
//verif:expect supported unsupported
//verif:assume the PRF and the cipher/MAC/AEAD constructors are opaque (they record their arguments)
//verif:doc MakeConnWithCompleteHandshake for EVERY 16-bit cipher suite id (symbolic), version 1.0..1.2 and both roles: nil exactly when utls does not implement the suite; otherwise the outgoing half uses this role's write key/IV/MAC key and the incoming half the peer's, a client's out matches a server's in and vice versa, and each block cipher is constructed for the direction it is used in (decrypter for in, encrypter for out); all four half-connections carry the given record-layer version.
func zzC27ForgedConnectionKeys() {
	id := verifU16("suite")
	version := uint16(VersionTLS10 + verifChoice("version", 3))
	ms, cr, sr := make([]byte, 48), make([]byte, 32), make([]byte, 32)
	cli := MakeConnWithCompleteHandshake(&zzRecConn{}, version, id, ms, cr, sr, true)
	srv := MakeConnWithCompleteHandshake(&zzRecConn{}, version, id, ms, cr, sr, false)
	impl := cipherSuiteByID(id) != nil
	verifAssert((cli != nil) == impl && (srv != nil) == impl, "nil-iff-unsupported-suite")
	if cli == nil || srv == nil {
		verifReach("unsupported")
		return
	}
	verifReach("supported")
	ck, civ, cOutRead, blk, ok1 := zzCipherTags(cli.out.cipher)
	sk, siv, sInRead, _, ok2 := zzCipherTags(srv.in.cipher)
	verifAssert(ok1 && ok2, "ciphers-installed")
	verifAssert(ck == 3 && civ == 5, "client-writes-with-client-key-and-iv")
	verifAssert(sk == 3 && siv == 5, "server-reads-with-client-key-and-iv")
	sk2, siv2, sOutRead, _, ok3 := zzCipherTags(srv.out.cipher)
	ck2, civ2, cInRead, _, ok4 := zzCipherTags(cli.in.cipher)
	verifAssert(ok3 && ok4, "ciphers-installed")
	verifAssert(sk2 == 4 && siv2 == 6, "server-writes-with-server-key-and-iv")
	verifAssert(ck2 == 4 && civ2 == 6, "client-reads-with-server-key-and-iv")
	if blk {
		verifAssertClass(!cOutRead && cInRead, "client-block-ciphers-oriented-by-use", "client-role-isread-swapped")
		verifAssertClass(!sOutRead && sInRead, "server-block-ciphers-oriented-by-use", "server-role")
	}
	if m, ok := cli.out.mac.(*zzMacObj); ok {
		verifAssert(m.key[0] == 1, "client-out-mac-key")
		m2, _ := srv.in.mac.(*zzMacObj)
		verifAssert(m2 != nil && m2.key[0] == 1, "server-in-mac-key")
		m3, _ := srv.out.mac.(*zzMacObj)
		m4, _ := cli.in.mac.(*zzMacObj)
		verifAssert(m3 != nil && m3.key[0] == 2 && m4 != nil && m4.key[0] == 2, "server-out-and-client-in-mac-key")
	}
	verifAssert(cli.vers == version && cli.cipherSuite == id && cli.isHandshakeComplete.Load(), "state-reports-version-and-suite")
	verifAssert(srv.vers == version && srv.cipherSuite == id && srv.isHandshakeComplete.Load(), "server-state-reports-version-and-suite")
	// the record layer of every half frames records for the negotiated version
	// (explicit CBC IVs from TLS 1.1, nonce handling): a half left at another
	// version cannot read what its peer writes
	verifAssert(cli.in.version == version && cli.out.version == version, "client-halves-use-the-version")
	verifAssert(srv.in.version == version && srv.out.version == version, "server-halves-use-the-version")
}
