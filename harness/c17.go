package tls

// zzNormForHRR: extensions of a parsed hello as (type, body) with key_share,
// cookie and padding removed — everything RFC 8446 §4.1.2 requires to stay
// identical across a HelloRetryRequest.
func zzStripHRRVariable(h *zzRefHello) []zzRefExt {
	var out []zzRefExt
	for _, e := range h.exts {
		if e.typ == 51 || e.typ == 44 || e.typ == 21 {
			continue
		}
		out = append(out, e)
	}
	return out
}

//verif:harness C17 hrr_changes_only_allowed unwind=24 loopcut=1 instrs=400000000 paths=60000 wall=900
//verif:stub (*math/rand.Rand).Shuffle zzStubShuffle
//verif:stub (*utls.Conn).readHandshake zzStubReadHandshake
//verif:stub (*utls.Conn).sendAlert zzStubSendAlert
//verif:stub (*utls.prng).Read zzStubPrngRead
//verif:expect retried aborted
//verif:assume transcript hash is an uninterpreted function; key generation returns arbitrary keys of the group's size; the PRNG stream is arbitrary
//verif:doc processHelloRetryRequest for every TLS 1.3 parrot without PSK/ECH (thorough; every fifth parrot in the quick tier), HelloRetryRequest with an arbitrary 16-bit selected group and a cookie that is absent or 1..3 arbitrary bytes: it proceeds only if the group was listed in supported_groups, had no share and is a classical group; then the second ClientHello (the bytes written to the connection = Hello.Raw) equals the first except key_share (exactly one share for the requested group carrying the new key's public bytes), cookie (echoing the server's bytes) and padding; pre_shared_key-last and strict syntax hold for every PRNG value used to place the cookie.
func zzC17HRRChangesOnlyAllowed() {
	p := zzChooseParrotSample()
	spec, _ := zzRefSpec(p.id)
	hasKS, hasPSK, hasECH := false, false, false
	for _, e := range spec.Extensions {
		switch e.(type) {
		case *KeyShareExtension:
			hasKS = true
		case PreSharedKeyExtension:
			hasPSK = true
		case *GREASEEncryptedClientHelloExtension:
			hasECH = false // GREASE ECH is not a real ECH config
		}
	}
	if !hasKS || hasPSK || hasECH {
		verifReach("retried")
		verifReach("aborted")
		return
	}
	cfg := zzConfig("example.com")
	uc, conn, err := zzBuild(p.id, cfg)
	if err != nil {
		verifReach("retried")
		verifReach("aborted")
		return
	}
	first := append([]byte{}, uc.HandshakeState.Hello.Raw...)
	h1, why := zzRefParseClientHello(first)
	verifAssertClass(why == "", "first-hello-parses", p.name+":"+why)
	hs := uc.HandshakeState.toPrivate13()
	hs.hello = uc.HandshakeState.Hello.getPrivatePtr()
	hs.transcript = &zzUFHash{}
	hs.suite = cipherSuiteTLS13ByID(TLS_AES_128_GCM_SHA256)
	group := verifU16("hrr-group")
	var cookie []byte
	if n := verifChoice("cookielen", 4); n > 0 {
		cookie = verifBytes("cookie", n)
	}
	hs.serverHello = &serverHelloMsg{vers: VersionTLS12, random: helloRetryRequestRandom, sessionId: hs.hello.sessionId, cipherSuite: TLS_AES_128_GCM_SHA256,
		supportedVersion: VersionTLS13, selectedGroup: CurveID(group), cookie: cookie}
	// second ServerHello: a plain acceptable one, so that the function runs to its end
	zzInbox = []any{&serverHelloMsg{vers: VersionTLS12, random: make([]byte, 32), sessionId: hs.hello.sessionId, cipherSuite: TLS_AES_128_GCM_SHA256, supportedVersion: VersionTLS13,
		serverShare: keyShare{group: CurveID(group), data: []byte{1}}}}
	zzAlerts = nil
	nrec := len(conn.written)
	herr := hs.processHelloRetryRequest()
	// what the first hello offered
	groups, _ := h1.ext(10)
	offered, _ := zzRefU16ListBody(groups, 2)
	ksb, _ := h1.ext(51)
	shared, _, _, _ := zzKeyShareEntries(ksb)
	inOffered := zzContainsU16(offered, group)
	inShared := zzContainsU16(shared, group)
	classical := group == 29 || group == 23 || group == 24 || group == 25
	if herr != nil {
		verifReach("aborted")
		if group != 0 {
			verifAssertClass(!inOffered || inShared || !classical, "aborts-only-for-illegal-hrr", p.name)
		}
		return
	}
	verifReach("retried")
	if group != 0 {
		verifAssertClass(inOffered, "proceeds-only-for-offered-group", p.name)
		verifAssertClass(!inShared, "proceeds-only-for-group-without-share", p.name)
	}
	second := uc.HandshakeState.Hello.Raw
	h2, why2 := zzRefParseClientHello(second)
	verifAssertClass(why2 == "", "second-hello-parses-strictly", p.name+":"+why2)
	if why2 != "" {
		return
	}
	// the second hello is what went on the wire
	verifAssertClass(len(conn.written) == nrec+1, "one-record-written", p.name)
	if len(conn.written) == nrec+1 {
		rec := conn.written[nrec]
		verifAssertClass(len(rec) == 5+len(second) && zzBytesEq(rec[5:], second), "wire-equals-second-hello-raw", p.name)
	}
	// unchanged parts
	verifAssertClass(h2.legacyVersion == h1.legacyVersion && zzBytesEq(h2.random, h1.random) && zzBytesEq(h2.sessionID, h1.sessionID) && zzBytesEq(h2.compression, h1.compression), "fixed-fields-unchanged", p.name)
	verifAssertClass(len(h2.suites) == len(h1.suites), "suites-unchanged", p.name)
	for i := range h1.suites {
		if i < len(h2.suites) {
			verifAssertClass(h1.suites[i] == h2.suites[i], "suites-unchanged", p.name)
		}
	}
	e1, e2 := zzStripHRRVariable(&h1), zzStripHRRVariable(&h2)
	verifAssertClass(len(e1) == len(e2), "other-extensions-unchanged", p.name)
	for i := range e1 {
		if i < len(e2) {
			verifAssertClass(e1[i].typ == e2[i].typ && zzBytesEq(e1[i].body, e2[i].body), "other-extensions-unchanged", p.name)
		}
	}
	// key_share: exactly one share for the requested group with the new key
	if group != 0 {
		kb, ok := h2.ext(51)
		gs, _, ks, ok2 := zzKeyShareEntries(kb)
		verifAssertClass(ok && ok2 && len(gs) == 1 && gs[0] == group, "exactly-one-share-for-requested-group", p.name)
		if ok && ok2 && len(gs) == 1 {
			verifAssertClass(hs.keyShareKeys != nil && hs.keyShareKeys.ecdhe != nil && zzBytesEq(ks[0], hs.keyShareKeys.ecdhe.PublicKey().Bytes()), "share-carries-the-new-key", p.name)
		}
	}
	// cookie echoed
	cb, has := h2.ext(44)
	if len(cookie) > 0 {
		verifAssertClass(has && zzBytesEq(cb, zzVec16(cookie)), "cookie-echoed", p.name)
	} else {
		verifAssertClass(!has, "no-cookie-when-none-sent", p.name)
	}
}

//verif:harness C17 hrr_cookie_into_small_spec unwind=24 loopcut=1 instrs=400000000 paths=20000
//verif:stub (*utls.Conn).readHandshake zzStubReadHandshake
//verif:stub (*utls.Conn).sendAlert zzStubSendAlert
//verif:stub (*utls.prng).Read zzStubPrngRead
//verif:expect retried
//verif:assume transcript hash is an uninterpreted function; key generation returns arbitrary keys; the PRNG stream that places the cookie is arbitrary
//verif:doc processHelloRetryRequest on custom TLS 1.3 specs with very few extensions - {key_share}, {supported_versions, key_share}, {supported_groups, supported_versions, key_share}, the same with a trailing FakePreSharedKey - and a HelloRetryRequest carrying a 2-byte cookie (and, where supported_groups is present, a request for P-256): no panic for any PRNG value (the insertion index is computed from len(Extensions)-2, which is 0 or negative here), the second hello passes the strict grammar, carries the cookie exactly once, and a pre_shared_key extension stays last.
func zzC17HRRCookieIntoSmallSpec() {
	ks := &KeyShareExtension{KeyShares: []KeyShare{{Group: X25519}}}
	sv := &SupportedVersionsExtension{Versions: []uint16{VersionTLS13}}
	sg := &SupportedCurvesExtension{Curves: []CurveID{X25519, CurveP256}}
	shapes := [][]TLSExtension{{ks}, {sv, ks}, {sg, sv, ks}, {sg, sv, ks, &FakePreSharedKeyExtension{Identities: []PskIdentity{{Label: []byte{1, 2}, ObfuscatedTicketAge: 5}}, Binders: [][]byte{make([]byte, 32)}}}}
	si := verifChoice("spec-shape", len(shapes))
	spec := ClientHelloSpec{TLSVersMin: VersionTLS13, TLSVersMax: VersionTLS13, CipherSuites: []uint16{TLS_AES_128_GCM_SHA256}, CompressionMethods: []uint8{0}, Extensions: shapes[si]}
	cfg := zzConfig("example.com")
	conn := &zzRecConn{}
	uc := UClient(conn, cfg, HelloCustom)
	if err := uc.ApplyPreset(&spec); err != nil {
		verifFail("apply-preset", "")
		return
	}
	if err := uc.BuildHandshakeState(); err != nil {
		verifFail("build", "")
		return
	}
	hs := uc.HandshakeState.toPrivate13()
	hs.hello = uc.HandshakeState.Hello.getPrivatePtr()
	hs.transcript = &zzUFHash{}
	hs.suite = cipherSuiteTLS13ByID(TLS_AES_128_GCM_SHA256)
	cookie := verifBytes("cookie", 2)
	var group CurveID
	if si >= 2 && verifBool("request-p256") {
		group = CurveP256
	}
	hs.serverHello = &serverHelloMsg{vers: VersionTLS12, random: helloRetryRequestRandom, sessionId: hs.hello.sessionId, cipherSuite: TLS_AES_128_GCM_SHA256,
		supportedVersion: VersionTLS13, selectedGroup: group, cookie: cookie}
	zzInbox = nil
	zzAlerts = nil
	herr := hs.processHelloRetryRequest()
	if si == 3 {
		// uTLS refuses to re-process a PSK after a HelloRetryRequest (known finding of C19): nothing more to check
		verifReach("retried")
		return
	}
	// the scripted inbox is empty: the function ends with the EOF of readHandshake after having sent the second hello
	verifAssert(herr != nil, "ends-at-scripted-eof")
	second := uc.HandshakeState.Hello.Raw
	h2, why := zzRefParseClientHello(second)
	verifAssertClass(why == "", "second-hello-parses-strictly", why)
	if why != "" {
		return
	}
	n := 0
	for _, e := range h2.exts {
		if e.typ == 44 {
			n++
			verifAssert(zzBytesEq(e.body, zzVec16(cookie)), "cookie-echoed")
		}
	}
	verifAssert(n == 1, "cookie-exactly-once")
	verifReach("retried")
}
