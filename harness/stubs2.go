package tls

import mrand "math/rand"

// zzStubShuffleOneSwap: Shuffle contract with zero or one arbitrary legal
// swap(i, j), 0 <= j <= i < n, in both tiers.
func zzStubShuffleOneSwap(r *mrand.Rand, n int, swap func(i, j int)) {
	if n < 2 {
		return
	}
	if verifBool("shuffle-swaps") {
		i := 1 + verifChoice("shuffle-i", n-1)
		j := verifChoice("shuffle-j", i+1)
		swap(i, j)
	}
}
