package tls

import mrand "math/rand"

// zzStubShuffleOneSwap: Shuffle contract with zero or one legal swap(i, j),
// 0 <= j <= i < n: any adjacent pair in the quick tier, any pair in the
// thorough tier.
func zzStubShuffleOneSwap(r *mrand.Rand, n int, swap func(i, j int)) {
	if n < 2 || zzNoShuffle {
		return
	}
	if verifBool("shuffle-swaps") {
		i := 1 + verifChoice("shuffle-i", n-1)
		j := i - 1 // quick tier: adjacent positions only
		if verifThorough() {
			j = verifChoice("shuffle-j", i+1)
		}
		swap(i, j)
	}
}

// zzNoShuffle disables the shuffle stubs while the harness obtains the
// reference (declared, unshuffled) spec.
var zzNoShuffle bool

// zzRefSpec returns the declared spec of id in its declared order.
func zzRefSpec(id ClientHelloID) (ClientHelloSpec, error) {
	zzNoShuffle = true
	s, err := UTLSIdToSpec(id)
	zzNoShuffle = false
	return s, err
}
