package tls

import (
	"crypto/ecdh"
	"crypto/mlkem"

	"github.com/refraction-networking/utls/internal/tls13"
)

// ---- stubs for the key-establishment kernel ----

type zzECDHCall struct {
	key  *ecdh.PrivateKey
	peer []byte
	out  []byte
}

var zzECDHCalls []zzECDHCall
var zzCapturedShared []byte
var zzKyberOut []byte

// (*ecdh.PrivateKey).ECDH: the curves must match (real check kept); the shared
// secret is 32 arbitrary bytes; the call is recorded.
func zzStubECDH(k *ecdh.PrivateKey, remote *ecdh.PublicKey) ([]byte, error) {
	if k.Curve() != remote.Curve() {
		return nil, errInvalidCurve
	}
	out := verifBytes("ecdh-shared", 32)
	zzECDHCalls = append(zzECDHCalls, zzECDHCall{k, remote.Bytes(), out})
	return out, nil
}

var errInvalidCurve = zzErrAlertSent

func zzStubKyberDecapsulate(dk *mlkem.DecapsulationKey768, c []byte) ([]byte, error) {
	zzKyberOut = verifBytes("kyber-shared", 32)
	return zzKyberOut, nil
}

func zzStubHandshakeSecret(s *tls13.EarlySecret, shared []byte) *tls13.HandshakeSecret {
	zzCapturedShared = append([]byte{}, shared...)
	return &tls13.HandshakeSecret{}
}
func zzStubTrafficSecret(s *tls13.HandshakeSecret, transcript interface {
	Write([]byte) (int, error)
	Sum([]byte) []byte
	Reset()
	Size() int
	BlockSize() int
}) []byte {
	return make([]byte, 32)
}
func zzStubMasterSecret(s *tls13.HandshakeSecret) *tls13.MasterSecret { return &tls13.MasterSecret{} }
func zzStubSetTrafficSecret(hc *halfConn, suite *cipherSuiteTLS13, level QUICEncryptionLevel, secret []byte) {
	hc.trafficSecret = secret
}

//verif:harness C10 server_picks_offered_key_share unwind=4000 instrs=600000000 paths=40000 wall=900
//verif:stub (*math/rand.Rand).Shuffle zzStubShuffleIdentity
//verif:stub (*utls.Conn).sendAlert zzStubSendAlert
//verif:stub (*crypto/ecdh.PrivateKey).ECDH zzStubECDH
//verif:stub utls.kyberDecapsulate zzStubKyberDecapsulate
//verif:stub (*github.com/refraction-networking/utls/internal/tls13.EarlySecret).HandshakeSecret zzStubHandshakeSecret
//verif:stub (*github.com/refraction-networking/utls/internal/tls13.HandshakeSecret).ClientHandshakeTrafficSecret zzStubTrafficSecret
//verif:stub (*github.com/refraction-networking/utls/internal/tls13.HandshakeSecret).ServerHandshakeTrafficSecret zzStubTrafficSecret
//verif:stub (*github.com/refraction-networking/utls/internal/tls13.HandshakeSecret).MasterSecret zzStubMasterSecret
//verif:stub (*utls.halfConn).setTrafficSecret zzStubSetTrafficSecret
//verif:expect end
//verif:assume ECDH, ML-KEM decapsulation and the key schedule are opaque (arbitrary outputs); server shares are well-formed for their group
//verif:doc C10/C18 kernel: for every predefined parrot and every non-GREASE key share it sent, a server that selects that group with a well-formed share of the right size makes establishHandshakeKeys succeed: ECDH is performed with the private key generated for that very share (same curve), and for the hybrids the secret handed to the key schedule is ML-KEM||X25519 (X25519MLKEM768) resp. X25519||Kyber (X25519Kyber768Draft00).
func zzC10ServerPicksOfferedKeyShare() {
	p := zzChooseParrot()
	cfg := zzConfig("example.com")
	cfg.OmitEmptyPsk = true
	uc, _, err := zzBuild(p.id, cfg)
	if err != nil {
		verifReach("end")
		return
	}
	h, why := zzRefParseClientHello(uc.HandshakeState.Hello.Raw)
	kb, has := h.ext(51)
	if why != "" || !has {
		verifReach("end")
		return
	}
	spec, _ := zzRefSpec(p.id)
	var specShares []KeyShare
	for _, x := range spec.Extensions {
		if kse, ok := x.(*KeyShareExtension); ok {
			specShares = kse.KeyShares
		}
	}
	gs, _, _, _ := zzKeyShareEntries(kb)
	var real []int
	for i := range gs {
		if i < len(specShares) && zzRefIsGREASE16Concrete(uint16(specShares[i].Group)) {
			continue
		}
		real = append(real, i)
	}
	if len(real) == 0 {
		verifReach("end")
		return
	}
	pick := real[verifChoice("server-share", len(real))]
	g := CurveID(uint16(specShares[pick].Group))
	size := map[CurveID]int{X25519: 32, CurveP256: 65, CurveP384: 97, CurveP521: 133, X25519MLKEM768: 1088 + 32, X25519Kyber768Draft00: 32 + 1088}[g]
	data := make([]byte, size)
	if g == CurveP256 || g == CurveP384 || g == CurveP521 {
		data[0] = 4
	}
	data[1] = verifU8("server-key-byte")
	hs := uc.HandshakeState.toPrivate13()
	hs.hello = uc.HandshakeState.Hello.getPrivatePtr()
	hs.serverHello = &serverHelloMsg{serverShare: keyShare{group: g, data: data}}
	hs.suite = cipherSuiteTLS13ByID(TLS_AES_128_GCM_SHA256)
	hs.transcript = &zzUFHash{}
	zzECDHCalls, zzCapturedShared, zzAlerts = nil, nil, nil
	cls := p.name
	kerr := hs.establishHandshakeKeys()
	classicalIdx := 0
	for _, i := range real {
		if i == pick {
			break
		}
		if gg := specShares[i].Group; gg == X25519 || gg == CurveP256 || gg == CurveP384 || gg == CurveP521 {
			classicalIdx++
		}
	}
	if (g == X25519 || g == CurveP256 || g == CurveP384 || g == CurveP521) && classicalIdx > 0 {
		verifAssertClass(kerr == nil, "offered-key-share-accepted", "only-first-classical-key-retained")
	} else {
		verifAssertClass(kerr == nil, "offered-key-share-accepted", cls)
	}
	if kerr == nil {
		verifAssertClass(uc.curveID == g || hs.c.curveID == g, "curve-recorded", cls)
		verifAssertClass(len(zzECDHCalls) >= 1, "ecdh-performed", cls)
		last := zzECDHCalls[len(zzECDHCalls)-1]
		keys := uc.HandshakeState.State13.KeyShareKeys
		switch g {
		case X25519MLKEM768:
			verifAssertClass(last.key == keys.MlkemEcdhe && zzBytesEq(last.peer, data[1088:]), "hybrid-ecdh-with-the-hybrid-share-key", cls)
			verifAssertClass(len(zzCapturedShared) == 64 && zzBytesEq(zzCapturedShared[32:], last.out), "mlkem-then-x25519-order", cls)
		case X25519Kyber768Draft00:
			verifAssertClass(last.key == keys.MlkemEcdhe && zzBytesEq(last.peer, data[:32]), "hybrid-ecdh-with-the-hybrid-share-key", cls)
			verifAssertClass(len(zzCapturedShared) == 64 && zzBytesEq(zzCapturedShared[:32], last.out) && zzBytesEq(zzCapturedShared[32:], zzKyberOut), "x25519-then-kyber-order", cls)
		default:
			verifAssertClass(last.key == keys.Ecdhe && zzBytesEq(last.peer, data), "ecdh-with-the-share-key", cls)
			verifAssertClass(zzBytesEq(zzCapturedShared, last.out), "secret-is-the-ecdh-output", cls)
		}
	}
	verifReach("end")
}

//verif:harness C10 server_picks_offered_version_and_suite unwind=4000 instrs=600000000 paths=60000 wall=900
//verif:stub (*math/rand.Rand).Shuffle zzStubShuffleIdentity
//verif:stub (*utls.Conn).sendAlert zzStubSendAlert
//verif:expect end
//verif:doc C10 kernels: for every predefined parrot (thorough tier: also for the connection built from the fingerprint of the parrot's own hello), every version it advertises on the wire is accepted by pickTLSVersion; every offered TLS 1.3 suite is accepted by checkServerHelloOrHRR (session id echoed); every offered TLS 1.0-1.2 suite that utls implements is accepted by pickCipherSuite; every offered ALPN protocol is accepted by checkALPN; every signature algorithm in the wire signature_algorithms extension that utls implements passes the acceptance test the TLS 1.2 key agreement applies to the server's choice.
func zzC10ServerPicksOfferedVersionAndSuite() {
	p := zzChooseParrot()
	cfg := zzConfig("example.com")
	cfg.OmitEmptyPsk = true
	uc, _, err := zzBuild(p.id, cfg)
	if err != nil {
		verifReach("end")
		return
	}
	if verifThorough() && verifBool("fingerprinted-copy") {
		// the same kernels on a connection built from the fingerprint of the parrot's hello
		uc2, ferr, berr := zzReapply(&Fingerprinter{}, zzRecord(uc.HandshakeState.Hello.Raw), "example.org")
		if ferr != nil || berr != nil {
			verifFail("fingerprinted-copy-builds", p.name)
			return
		}
		uc = uc2
	}
	h, why := zzRefParseClientHello(uc.HandshakeState.Hello.Raw)
	if why != "" {
		verifReach("end")
		return
	}
	spec, _ := zzRefSpec(p.id)
	var specSV []uint16
	for _, e := range spec.Extensions {
		if sv, ok := e.(*SupportedVersionsExtension); ok {
			specSV = sv.Versions
		}
	}
	specMin := spec.TLSVersMin
	if specMin == 0 {
		specMin = VersionTLS10
	}
	adv := zzAdvertisedVersions(&h, specMin, specSV)
	hello := uc.HandshakeState.Hello.getPrivatePtr()
	switch verifChoice("kernel", 5) {
	case 0:
		v := adv[verifChoice("version", len(adv))]
		sh := &serverHelloMsg{vers: v}
		if v == VersionTLS13 {
			sh.vers, sh.supportedVersion = VersionTLS12, VersionTLS13
		}
		verifAssertClass(uc.pickTLSVersion(sh) == nil && uc.vers == v, "advertised-version-accepted", p.name)
	case 1:
		var s13 []uint16
		for i, s := range spec.CipherSuites {
			if zzIsTLS13Suite(s) && i < len(h.suites) {
				s13 = append(s13, s)
			}
		}
		if len(s13) > 0 {
			s := s13[verifChoice("suite13", len(s13))]
			hs := &clientHandshakeStateTLS13{c: uc.Conn, hello: hello, serverHello: &serverHelloMsg{vers: VersionTLS12, supportedVersion: VersionTLS13, sessionId: hello.sessionId, cipherSuite: s}}
			verifAssertClass(hs.checkServerHelloOrHRR() == nil, "offered-tls13-suite-accepted", p.name)
		}
	case 2:
		var s12 []uint16
		for _, s := range spec.CipherSuites {
			if !zzIsTLS13Suite(s) && !zzRefIsGREASE16Concrete(s) && cipherSuiteByID(s) != nil {
				s12 = append(s12, s)
			}
		}
		if len(s12) > 0 {
			s := s12[verifChoice("suite12", len(s12))]
			uc.vers = VersionTLS12
			hs := &clientHandshakeState{c: uc.Conn, hello: hello, serverHello: &serverHelloMsg{vers: VersionTLS12, cipherSuite: s}}
			verifAssertClass(hs.pickCipherSuite() == nil && uc.cipherSuite == s, "offered-implemented-suite-accepted", p.name)
		}
	case 4:
		// TLS 1.2 ServerKeyExchange (key_agreement.go) accepts a signature
		// algorithm iff isSupportedSignatureAlgorithm(alg, clientHello.supportedSignatureAlgorithms)
		if sb, ok := h.ext(13); ok && len(sb) >= 2 {
			algs := sb[2:]
			n := len(algs) / 2
			if n > 0 {
				i := verifChoice("sigalg", n)
				alg := SignatureScheme(uint16(algs[2*i])<<8 | uint16(algs[2*i+1]))
				if _, _, terr := typeAndHashFromSignatureScheme(alg); terr == nil {
					verifAssertClass(isSupportedSignatureAlgorithm(alg, hello.supportedSignatureAlgorithms), "offered-signature-algorithm-accepted", p.name)
				}
			}
		}
	case 3:
		if len(hello.alpnProtocols) > 0 {
			pr := hello.alpnProtocols[verifChoice("alpn", len(hello.alpnProtocols))]
			verifAssertClass(checkALPN(hello.alpnProtocols, pr, false) == nil, "offered-alpn-accepted", p.name)
		}
	}
	verifReach("end")
}
