package tls

//verif:harness C32 dict_pairs_consistent unwind=2000 paths=40000
//verif:expect end
//verif:doc For every dicttls (ValueIndexed, NameIndexed) map pair found in the current source (checker functions are generated from the tree) and a key that is symbolic over the whole key type: a listed value resolves, through its name, back to the same value. A symbolic-key map lookup forks once per table entry, so each table is covered exhaustively.
func zzC32DictPairsConsistent() {
	i := verifChoice("table", len(zzDictChecks))
	zzDictChecks[i].f()
	verifReach("end")
}
