package tls

import (
	"crypto/x509"
	"time"
)

var zzCachePutVals []*ClientSessionState

type zzRecordingCache struct{}

func (zzRecordingCache) Get(k string) (*ClientSessionState, bool) {
	zzCacheKeys = append(zzCacheKeys, k)
	return zzCachedSession, zzCachedSession != nil
}
func (zzRecordingCache) Put(k string, s *ClientSessionState) {
	zzCachePuts = append(zzCachePuts, k)
	zzCachePutVals = append(zzCachePutVals, s)
}

//verif:harness C19 ticket_stored_is_ticket_offered unwind=400 paths=20000
//verif:stub (*utls.Conn).sendAlert zzStubSendAlert
//verif:stub (*crypto/x509.Certificate).VerifyHostname zzStubVerifyHostname
//verif:stub (time.Time).Sub zzStubTimeSub
//verif:stub (*github.com/refraction-networking/utls/internal/tls13.EarlySecret).ResumptionBinderKey zzStubResumptionBinderKey
//verif:expect stored ignored refused
//verif:assume the resumption PSK derivation (HKDF-Expand-Label) and the early secret are opaque; x509 host-name matching succeeds
//verif:doc The storing half of resumption: handleNewSessionTicket (TLS 1.3, client) with a ticket message whose lifetime is 0, 1 s, 7 days, 7 days + 1 s or 2^32-1 s, and whose nonce, label (3 bytes), age_add and max_early_data are symbolic: lifetime 0 stores nothing, a lifetime over 7 days is refused with illegal_parameter, otherwise exactly one session is put into the ClientSessionCache - under the same key that the next connection's loadSession looks up (Config.ServerName) - and that next connection offers exactly this ticket as its PSK identity with the server's age_add and an expiry of now + lifetime.
func zzC19TicketStoredIsTicketOffered() {
	zzAlerts, zzCacheKeys, zzCachePuts, zzCachePutVals, zzCachedSession = nil, nil, nil, nil, nil
	zzHostnameOK = true
	now := zzFixedTime()
	cert := &x509.Certificate{NotAfter: now.Add(time.Hour)}
	cfg := &Config{ServerName: "a.example", ClientSessionCache: zzRecordingCache{}, Time: func() time.Time { return now }}
	c := &Conn{config: cfg, isClient: true, vers: VersionTLS13, cipherSuite: TLS_AES_128_GCM_SHA256, resumptionSecret: []byte{1, 2, 3},
		peerCertificates: []*x509.Certificate{cert}, verifiedChains: [][]*x509.Certificate{{cert}}}
	lifetimes := []uint32{0, 1, 604800, 604801, 0xffffffff}
	lt := lifetimes[verifChoice("lifetime", len(lifetimes))]
	label := verifBytes("ticket-label", 3)
	msg := &newSessionTicketMsgTLS13{lifetime: lt, ageAdd: verifU32("age-add"), nonce: verifBytes("nonce", 2), label: label, maxEarlyData: verifU32("max-early-data")}
	err := c.handleNewSessionTicket(msg)
	switch {
	case lt == 0:
		verifReach("ignored")
		verifAssert(err == nil && len(zzCachePuts) == 0, "zero-lifetime-ticket-not-stored")
		return
	case lt > 604800:
		verifReach("refused")
		verifAssert(err != nil && len(zzAlerts) == 1 && zzAlerts[0] == alertIllegalParameter && len(zzCachePuts) == 0, "over-long-lifetime-refused")
		return
	}
	verifReach("stored")
	verifAssert(err == nil && len(zzCachePuts) == 1 && zzCachePuts[0] == "a.example", "stored-once-under-the-server-name")
	if len(zzCachePutVals) != 1 || zzCachePutVals[0] == nil {
		verifFail("stored-session-present", "")
		return
	}
	ss := zzCachePutVals[0].session
	verifAssert(zzBytesEq(ss.ticket, label) && ss.ageAdd == msg.ageAdd && ss.useBy == uint64(now.Unix())+uint64(lt) && ss.version == VersionTLS13 && ss.cipherSuite == TLS_AES_128_GCM_SHA256, "stored-session-is-the-servers-ticket")
	// the next connection to the same name
	zzCachedSession = zzCachePutVals[0]
	c2 := &Conn{config: cfg, isClient: true}
	uc := &UConn{Conn: c2}
	sc := newSessionController(uc)
	sc.loadSessionTracker = UtlsAboutToCall
	c2.utls.sessionController = sc
	hello := &clientHelloMsg{supportedVersions: []uint16{VersionTLS13}, cipherSuites: []uint16{TLS_AES_128_GCM_SHA256}}
	session, _, _, lerr := c2.loadSession(hello)
	verifAssert(lerr == nil && session != nil, "next-connection-offers-the-session")
	verifAssert(len(zzCacheKeys) == 1 && zzCacheKeys[0] == zzCachePuts[0], "lookup-key-is-the-store-key")
	if session != nil {
		verifAssert(len(hello.pskIdentities) == 1 && zzBytesEq(hello.pskIdentities[0].label, label), "offered-identity-is-the-stored-ticket")
	}
}

func zzStubFinishedHashWrite(h *finishedHash, msg []byte) (int, error) { return len(msg), nil }

//verif:harness C19 tls12_ticket_stored_is_ticket_offered unwind=400 paths=20000
//verif:stub (*utls.Conn).sendAlert zzStubSendAlert
//verif:stub (*utls.Conn).readHandshake zzStubReadHandshake
//verif:stub (*utls.finishedHash).Write zzStubFinishedHashWrite
//verif:stub (*crypto/x509.Certificate).VerifyHostname zzStubVerifyHostname
//verif:stub (time.Time).Sub zzStubTimeSub
//verif:expect stored unrequested no-ticket
//verif:assume the Finished transcript hash is not computed; x509 host-name matching succeeds
//verif:doc The TLS 1.2 storing half: readSessionTicket + saveSessionTicket with the ServerHello's session_ticket flag and the hello's flag arbitrary and a NewSessionTicket carrying 3 symbolic bytes: a ticket the client did not ask for is refused with illegal_parameter; otherwise the session (version, suite, master secret, extended-master-secret flag as negotiated, ticket verbatim) is stored once under Config.ServerName, and the next connection's loadSession looks up that same key and offers exactly that ticket.
func zzC19TLS12TicketStoredIsTicketOffered() {
	zzAlerts, zzCacheKeys, zzCachePuts, zzCachePutVals, zzCachedSession = nil, nil, nil, nil, nil
	zzHostnameOK = true
	now := zzFixedTime()
	cert := &x509.Certificate{NotAfter: now.Add(time.Hour)}
	cfg := &Config{ServerName: "a.example", ClientSessionCache: zzRecordingCache{}, Time: func() time.Time { return now }}
	ems := verifBool("ems-negotiated")
	c := &Conn{config: cfg, isClient: true, vers: VersionTLS12, cipherSuite: TLS_ECDHE_RSA_WITH_AES_128_GCM_SHA256, extMasterSecret: ems,
		peerCertificates: []*x509.Certificate{cert}, verifiedChains: [][]*x509.Certificate{{cert}}}
	ticket := verifBytes("ticket", 3)
	secret := verifBytes("master-secret", 2)
	hello := &clientHelloMsg{ticketSupported: verifBool("client-asked-for-ticket")}
	sh := &serverHelloMsg{ticketSupported: verifBool("server-announces-ticket")}
	hs := &clientHandshakeState{c: c, hello: hello, serverHello: sh, masterSecret: secret}
	zzInbox = []any{&newSessionTicketMsg{ticket: ticket}}
	err := hs.readSessionTicket()
	if sh.ticketSupported && !hello.ticketSupported {
		verifReach("unrequested")
		verifAssert(err != nil && len(zzAlerts) == 1 && zzAlerts[0] == alertIllegalParameter, "unrequested-ticket-refused")
		return
	}
	verifAssert(err == nil, "ticket-read")
	serr := hs.saveSessionTicket()
	if !sh.ticketSupported {
		verifReach("no-ticket")
		verifAssert(serr == nil && len(zzCachePuts) == 0, "nothing-stored-without-a-ticket")
		return
	}
	verifReach("stored")
	verifAssert(serr == nil && len(zzCachePuts) == 1 && zzCachePuts[0] == "a.example", "stored-once-under-the-server-name")
	if len(zzCachePutVals) != 1 || zzCachePutVals[0] == nil {
		verifFail("stored-session-present", "")
		return
	}
	ss := zzCachePutVals[0].session
	verifAssert(zzBytesEq(ss.ticket, ticket) && zzBytesEq(ss.secret, secret) && ss.version == VersionTLS12 && ss.cipherSuite == TLS_ECDHE_RSA_WITH_AES_128_GCM_SHA256 && ss.extMasterSecret == ems, "stored-session-is-the-negotiated-one")
	zzCachedSession = zzCachePutVals[0]
	c2 := &Conn{config: cfg, isClient: true}
	uc := &UConn{Conn: c2}
	sc := newSessionController(uc)
	sc.loadSessionTracker = UtlsAboutToCall
	c2.utls.sessionController = sc
	hello2 := &clientHelloMsg{supportedVersions: []uint16{VersionTLS12}, cipherSuites: []uint16{TLS_ECDHE_RSA_WITH_AES_128_GCM_SHA256}, extendedMasterSecret: true, ticketSupported: true}
	session, _, _, lerr := c2.loadSession(hello2)
	verifAssert(lerr == nil && session != nil, "next-connection-offers-the-session")
	verifAssert(len(zzCacheKeys) == 1 && zzCacheKeys[0] == zzCachePuts[0], "lookup-key-is-the-store-key")
	verifAssert(zzBytesEq(hello2.sessionTicket, ticket), "offered-ticket-is-the-stored-ticket")
}

//verif:harness C19 psk_with_grease_ech_spec_builds_with_cached_session unwind=4000 instrs=900000000 paths=20000 wall=900
//verif:stub (*math/rand.Rand).Shuffle zzStubShuffleIdentity
//verif:stub (crypto.Hash).New zzStubHashNew
//verif:stub (*utls.cipherSuiteTLS13).finishedHash zzStubFinishedHash
//verif:stub (*crypto/x509.Certificate).VerifyHostname zzStubVerifyHostname
//verif:stub (time.Time).Sub zzStubTimeSub
//verif:stub (*github.com/refraction-networking/utls/internal/tls13.EarlySecret).ResumptionBinderKey zzStubResumptionBinderKey
//verif:expect offered
//verif:assume transcript hash, Finished MAC and the early secret are opaque; x509 host-name matching succeeds; the cached TLS 1.3 session is valid
//verif:doc Custom specs that combine a pre_shared_key extension (UtlsPreSharedKeyExtension, last) with extensions that marshal or measure the hello while the configuration is applied (a GREASE ECH extension; BoringSSL padding): every ECH-capable parrot's spec (and every padding parrot's) with a UtlsPreSharedKeyExtension appended, built on a connection (Config.OmitEmptyPsk set) whose ClientSessionCache holds a valid TLS 1.3 session: BuildHandshakeState succeeds, the hello passes the strict grammar with pre_shared_key last carrying the cached ticket as identity, and the length fields are consistent.
func zzC19PskWithGreaseECHSpecBuildsWithCachedSession() {
	p := zzChooseParrot()
	spec, _ := zzRefSpec(p.id)
	hasPSK, interesting, has13 := false, false, false
	for _, e := range spec.Extensions {
		switch e.(type) {
		case PreSharedKeyExtension:
			hasPSK = true
		case *GREASEEncryptedClientHelloExtension, *UtlsPaddingExtension:
			interesting = true
		case *KeyShareExtension:
			has13 = true
		}
	}
	if hasPSK || !interesting || !has13 {
		verifReach("offered")
		return
	}
	spec.Extensions = append(spec.Extensions, &UtlsPreSharedKeyExtension{})
	zzCacheKeys, zzCachePuts, zzHostnameChecks = nil, nil, nil
	zzHostnameOK = true
	cfg := zzConfig("example.com")
	cfg.ClientSessionCache = zzScriptedCache{}
	cfg.OmitEmptyPsk = true // the documented setting for specs with a pre_shared_key extension
	now := zzFixedTime()
	cert := &x509.Certificate{NotAfter: now.Add(time.Hour)}
	ticket := []byte{0xca, 0xfe, 0xf0, 0x0d}
	zzCachedSession = &ClientSessionState{session: &SessionState{version: VersionTLS13, cipherSuite: TLS_AES_128_GCM_SHA256, createdAt: uint64(now.Unix()), useBy: uint64(now.Add(time.Hour).Unix()), ageAdd: 7,
		secret: []byte{1, 2}, ticket: ticket, peerCertificates: []*x509.Certificate{cert}, verifiedChains: [][]*x509.Certificate{{cert}}}}
	uc := UClient(&zzRecConn{}, cfg, HelloCustom)
	if err := uc.ApplyPreset(&spec); err != nil {
		verifFail("apply-preset", p.name)
		return
	}
	err := uc.BuildHandshakeState()
	if err != nil {
		verifFail("hello-with-cached-session-builds", p.name+": "+err.Error())
	}
	if err != nil {
		return
	}
	raw := uc.HandshakeState.Hello.Raw
	h, ok := zzCheckHelloSyntax(raw, p.name)
	if !ok {
		return
	}
	verifAssertClass(len(h.exts) > 0 && h.exts[len(h.exts)-1].typ == 41, "pre-shared-key-is-last", p.name)
	b, _ := h.ext(41)
	verifAssertClass(len(b) >= 2+2+len(ticket) && zzBytesEq(b[4:4+len(ticket)], ticket), "identity-is-the-cached-ticket", p.name)
	verifAssertClass(len(raw) == 4+int(raw[1])<<16+int(raw[2])<<8+int(raw[3]), "length-field-consistent", p.name)
	verifReach("offered")
}
