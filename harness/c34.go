package tls

import (
	"crypto/mlkem"
	"errors"
)

//verif:harness C34 server_decodes_hostile_messages unwind=600 paths=400000 wall=1200
//verif:stub (*utls.Conn).sendAlert zzStubSendAlert
//verif:expect end
//verif:doc Conn.unmarshalHandshakeMessage on the SERVER side (isClient=false, negotiated version 1.2 or 1.3 symbolic) for every handshake type byte (symbolic: includes the uTLS-specific types 8 = client EncryptedExtensions and 25 = CompressedCertificate accepted from either peer) and an arbitrary body of every length 0..6 (quick) / 0..9 (thorough): message or error, never a panic.
func zzC34ServerDecodesHostileMessages() {
	zzAlerts = nil
	c := &Conn{isClient: false, config: &Config{}}
	c.vers = VersionTLS12 + uint16(verifChoice("vers13", 2))
	max := 7
	if verifThorough() {
		max = 10
	}
	n := verifChoice("n", max)
	typ := verifU8("type")
	data := zzArbitraryMessage(typ, n)
	m, err := c.unmarshalHandshakeMessage(data, nil)
	verifAssert((m == nil) == (err != nil), "message-or-error")
	verifReach("end")
}

//verif:harness C34 client_hello_extensions_hostile unwind=600 paths=400000 wall=1200
//verif:expect end
//verif:doc clientHelloMsg.unmarshal (the server's parser) on a well-formed fixed part followed by an arbitrary extension block of every length 0..7 (quick) / 0..10 (thorough), and utlsClientEncryptedExtensionsMsg.unmarshal on an arbitrary extension block: never panic; an accepted ClientHello re-marshals without panicking.
func zzC34ClientHelloExtensionsHostile() {
	max := 8
	if verifThorough() {
		max = 11
	}
	n := verifChoice("n", max)
	ext := verifBytes("ext", n)
	if verifBool("client-encrypted-extensions") {
		msg := zzCat([]byte{8}, zzVec24(zzVec16(ext)))
		var m utlsClientEncryptedExtensionsMsg
		if m.unmarshal(msg) {
			_, _ = m.marshal()
		}
	} else {
		body := zzCat([]byte{3, 3}, make([]byte, 32), []byte{0}, []byte{0, 2, 0x13, 0x01}, []byte{1, 0}, zzVec16(ext))
		msg := zzCat([]byte{1}, zzVec24(body))
		var m clientHelloMsg
		if m.unmarshal(msg) {
			m.original = nil
			_, _ = m.marshal()
		}
	}
	verifReach("end")
}

func zzStubNewEncapsulationKey768(b []byte) (*mlkem.EncapsulationKey768, error) {
	if len(b) != mlkem.EncapsulationKeySize768 || verifBool("mlkem-key-invalid") {
		return nil, errors.New("mlkem: invalid encapsulation key")
	}
	return &mlkem.EncapsulationKey768{}, nil
}

func zzStubEncapsulate(k *mlkem.EncapsulationKey768) (sharedKey, ciphertext []byte) {
	return verifBytes("mlkem-shared", 32), make([]byte, mlkem.CiphertextSize768)
}

//verif:harness C34 server_key_share_of_any_length unwind=4000 paths=40000
//verif:stub (*utls.Conn).sendAlert zzStubSendAlert
//verif:stub (crypto.Hash).New zzStubHashNew
//verif:stub (*crypto/ecdh.PrivateKey).ECDH zzStubECDH
//verif:stub crypto/mlkem.NewEncapsulationKey768 zzStubNewEncapsulationKey768
//verif:stub (*crypto/mlkem.EncapsulationKey768).Encapsulate zzStubEncapsulate
//verif:expect accepted refused
//verif:assume ECDH and ML-KEM are opaque: NewEncapsulationKey768 rejects a key of the wrong size (its documented contract) and may reject any other; shared secrets are arbitrary
//verif:doc serverHandshakeStateTLS13.processClientHello (default curve preferences, so the hybrid group is preferred) on a TLS 1.3 ClientHello whose selected key share - X25519MLKEM768, X25519 or P-256 - has a length from a stated set around every boundary (0, 1, 31, 32, 33, 64, 65, 66, 1183, 1184, 1185, 1215, 1216, 1217, 1300) and symbolic leading bytes: the function returns (success or error with an alert) and never panics; success only for the exact size of the group.
func zzC34ServerKeyShareOfAnyLength() {
	zzAlerts = nil
	groups := []CurveID{X25519MLKEM768, X25519, CurveP256}
	g := groups[verifChoice("group", len(groups))]
	lens := []int{0, 1, 31, 32, 33, 64, 65, 66, 1183, 1184, 1185, 1215, 1216, 1217, 1300}
	n := lens[verifChoice("share-length", len(lens))]
	data := make([]byte, n)
	if n > 0 {
		data[0] = verifU8("share-byte0")
	}
	if n > 1 {
		data[n-1] = verifU8("share-last")
	}
	c := &Conn{config: &Config{Rand: zzRandReader{}, Time: zzFixedTime}, vers: VersionTLS13}
	ch := &clientHelloMsg{vers: VersionTLS12, random: make([]byte, 32), sessionId: make([]byte, 32), cipherSuites: []uint16{TLS_AES_128_GCM_SHA256},
		compressionMethods: []uint8{compressionNone}, supportedVersions: []uint16{VersionTLS13}, supportedCurves: []CurveID{g},
		keyShares: []keyShare{{group: g, data: data}}, supportedSignatureAlgorithms: []SignatureScheme{ECDSAWithP256AndSHA256}}
	hs := &serverHandshakeStateTLS13{c: c, clientHello: ch}
	err := hs.processClientHello()
	want := map[CurveID]int{X25519MLKEM768: 1216, X25519: 32, CurveP256: 65}[g]
	if err == nil {
		verifReach("accepted")
		verifAssert(n == want, "only-exact-size-accepted")
	} else {
		verifReach("refused")
		verifAssert(len(zzAlerts) > 0, "refusal-sends-an-alert")
	}
}

//verif:harness C34 ech_inner_hello_hostile unwind=600 paths=400000 wall=1200
//verif:expect decoded refused
//verif:doc decodeInnerClientHello (the server's reconstruction of the inner ClientHello from a decrypted ECH payload, fully attacker-controlled) against a fixed valid outer hello: a well-formed fixed part (version, random, empty session id, one suite, null compression) followed by an extension block (optionally starting with the two extensions a valid inner hello needs) of every length 0..9 (quick) / 0..12 (thorough) with arbitrary bytes - which includes ech_outer_extensions (0xfd00) lists referring to arbitrary, repeated, missing or forbidden outer extensions - and 0..2 arbitrary trailing padding bytes: the function returns a message or an error and never panics; a decoded inner hello offers TLS 1.3 only and is marked as inner.
func zzC34ECHInnerHelloHostile() {
	outerRaw := zzCaptureHello("public.example", zzTLV(10, zzVec16([]byte{0, 29})), zzTLV(13, zzVec16([]byte{4, 3})), zzTLV(43, zzVec8([]byte{3, 4})),
		zzTLV(51, zzVec16(zzCat([]byte{0, 29}, zzVec16(make([]byte, 32))))), zzTLV(0xfe0d, zzCat([]byte{0, 0, 1, 0, 1, 7}, zzVec16(make([]byte, 32)), zzVec16(make([]byte, 48)))))
	outer := &clientHelloMsg{}
	if !outer.unmarshal(outerRaw) {
		verifFail("outer-unmarshals", "")
		return
	}
	max := 10
	if verifThorough() {
		max = 13
	}
	n := verifChoice("ext-block-len", max)
	var eb []byte
	if n > 0 {
		eb = verifBytes("ext-block", n)
	}
	var pad []byte
	if k := verifChoice("padding-len", 3); k > 0 {
		pad = verifBytes("padding", k)
	}
	if verifBool("valid-inner-extensions-first") {
		// inner ECH marker and supported_versions {1.3}, then the arbitrary block
		eb = zzCat(zzTLV(0xfe0d, []byte{1}), zzTLV(43, zzVec8([]byte{3, 4})), eb)
	}
	encoded := zzCat([]byte{3, 3}, make([]byte, 32), []byte{0}, zzVec16([]byte{0x13, 0x01}), []byte{1, 0}, zzVec16(eb), pad)
	inner, err := decodeInnerClientHello(outer, encoded)
	if err != nil {
		verifReach("refused")
		verifAssert(inner == nil, "no-message-with-error")
		return
	}
	verifReach("decoded")
	verifAssert(inner != nil && len(inner.supportedVersions) == 1 && inner.supportedVersions[0] == VersionTLS13, "inner-offers-tls13-only")
	verifAssert(len(inner.encryptedClientHello) == 1 && inner.encryptedClientHello[0] == 1, "marked-inner")
	for _, p := range pad {
		verifAssert(p == 0, "padding-was-zero")
	}
}
