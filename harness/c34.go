package tls

//verif:harness C34 server_decodes_hostile_messages unwind=600 paths=400000 wall=1200
//verif:stub (*utls.Conn).sendAlert zzStubSendAlert
//verif:expect end
//verif:doc Conn.unmarshalHandshakeMessage on the SERVER side (isClient=false, negotiated version 1.2 or 1.3 symbolic) for every handshake type byte (symbolic: includes the uTLS-specific types 8 = client EncryptedExtensions and 25 = CompressedCertificate accepted from either peer) and an arbitrary body of every length 0..6 (quick) / 0..9 (thorough): message or error, never a panic.
func zzC34ServerDecodesHostileMessages() {
	zzAlerts = nil
	c := &Conn{isClient: false, config: &Config{}}
	c.vers = VersionTLS12 + uint16(verifChoice("vers13", 2))
	max := 7
	if verifThorough() {
		max = 10
	}
	n := verifChoice("n", max)
	typ := verifU8("type")
	data := zzArbitraryMessage(typ, n)
	m, err := c.unmarshalHandshakeMessage(data, nil)
	verifAssert((m == nil) == (err != nil), "message-or-error")
	verifReach("end")
}

//verif:harness C34 client_hello_extensions_hostile unwind=600 paths=400000 wall=1200
//verif:expect end
//verif:doc clientHelloMsg.unmarshal (the server's parser) on a well-formed fixed part followed by an arbitrary extension block of every length 0..7 (quick) / 0..10 (thorough), and utlsClientEncryptedExtensionsMsg.unmarshal on an arbitrary extension block: never panic; an accepted ClientHello re-marshals without panicking.
func zzC34ClientHelloExtensionsHostile() {
	max := 8
	if verifThorough() {
		max = 11
	}
	n := verifChoice("n", max)
	ext := verifBytes("ext", n)
	if verifBool("client-encrypted-extensions") {
		msg := zzCat([]byte{8}, zzVec24(zzVec16(ext)))
		var m utlsClientEncryptedExtensionsMsg
		if m.unmarshal(msg) {
			_, _ = m.marshal()
		}
	} else {
		body := zzCat([]byte{3, 3}, make([]byte, 32), []byte{0}, []byte{0, 2, 0x13, 0x01}, []byte{1, 0}, zzVec16(ext))
		msg := zzCat([]byte{1}, zzVec24(body))
		var m clientHelloMsg
		if m.unmarshal(msg) {
			m.original = nil
			_, _ = m.marshal()
		}
	}
	verifReach("end")
}
