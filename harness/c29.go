package tls

import (
	"errors"
	"net"
	"time"
)

var zzDialCount int
var zzDialFailAt int // -1: never
var zzAttempts []ClientHelloID
var zzAttemptSNI []string
var zzSucceedAt int // index of the attempt that succeeds (-1: none)
var zzErrDial = errors.New("zz: modelled TCP dial error")

func zzStubDialTimeout(network, address string, timeout time.Duration) (net.Conn, error) {
	if zzDialCount == zzDialFailAt {
		zzDialCount++
		return nil, zzErrDial
	}
	zzDialCount++
	return &zzRecConn{}, nil
}

func zzStubUConnHandshake(c *UConn) error {
	zzAttempts = append(zzAttempts, c.ClientHelloID)
	zzAttemptSNI = append(zzAttemptSNI, c.config.ServerName)
	if len(zzAttempts)-1 == zzSucceedAt {
		return nil
	}
	return errors.New("zz: modelled handshake failure")
}

//verif:harness C29 roller_order_and_stop unwind=400 paths=100000
//verif:stub net.DialTimeout zzStubDialTimeout
//verif:stub (*utls.UConn).Handshake zzStubUConnHandshake
//verif:stub (*math/rand.Rand).Shuffle zzStubShuffleOneSwap
//verif:expect connected exhausted dialerror
//verif:assume net.DialTimeout and (*UConn).Handshake are stubs with arbitrary outcomes; Shuffle performs zero or one legal swap; one goroutine (concurrent Dial calls are outside the technique)
//verif:doc Roller.Dial with 1..3 distinct configured ids (different parrots, or randomized ids that differ only in their seed), WorkingHelloID nil / one of them / a foreign id, an arbitrary attempt that succeeds (or none) and an arbitrary dial that fails (or none): the first attempt uses the working id if there is one; no id is attempted twice; Dial returns at the first success with SNI set to the given name on every attempt and records that id; a dial error is returned immediately.
func zzC29RollerOrderAndStop() {
	pool := []ClientHelloID{HelloChrome_100, HelloFirefox_105, HelloIOS_14}
	if verifBool("ids-differ-only-in-seed") {
		// configured ids may share client and version and differ only in their seed
		sa, sb, sc := &PRNGSeed{1}, &PRNGSeed{2}, &PRNGSeed{3}
		pool = []ClientHelloID{{helloRandomized, helloAutoVers, sa, nil}, {helloRandomized, helloAutoVers, sb, nil}, {helloRandomized, helloAutoVers, sc, nil}}
	}
	foreign := HelloEdge_106
	n := 1 + verifChoice("nids", 3)
	r := &Roller{HelloIDs: append([]ClientHelloID{}, pool[:n]...), r: zzNewSymPRNG(), TcpDialTimeout: time.Second, TlsHandshakeTimeout: time.Second}
	w := verifChoice("working", n+2) // 0: none, 1..n: configured, n+1: foreign
	var working *ClientHelloID
	if w >= 1 && w <= n {
		id := pool[w-1]
		working = &id
	} else if w == n+1 {
		working = &foreign
	}
	r.WorkingHelloID = working
	total := n
	if w == n+1 {
		total++
	}
	zzSucceedAt = verifChoice("succeed-at", total+1) - 1
	zzDialFailAt = verifChoice("dial-fails-at", total+1) - 1
	zzDialCount, zzAttempts, zzAttemptSNI = 0, nil, nil
	conn, err := r.Dial("tcp", "192.0.2.1:443", "roller.example")
	// no id attempted twice, all attempted ids are configured or the working id
	for i := range zzAttempts {
		for j := 0; j < i; j++ {
			verifAssert(zzAttempts[i] != zzAttempts[j], "each-id-attempted-at-most-once")
		}
		verifAssert(zzAttemptSNI[i] == "roller.example", "sni-set-on-every-attempt")
	}
	verifAssert(len(zzAttempts) <= total, "at-most-one-attempt-per-id")
	if working != nil && len(zzAttempts) > 0 {
		verifAssert(zzAttempts[0] == *working, "working-id-tried-first")
	}
	switch {
	case zzDialFailAt >= 0 && (zzSucceedAt < 0 || zzDialFailAt <= zzSucceedAt):
		verifReach("dialerror")
		verifAssert(conn == nil && err == zzErrDial, "dial-error-returned-immediately")
		verifAssert(len(zzAttempts) == zzDialFailAt, "no-attempt-after-dial-error")
	case zzSucceedAt >= 0:
		verifReach("connected")
		verifAssert(conn != nil && err == nil, "returns-first-successful-connection")
		verifAssert(len(zzAttempts) == zzSucceedAt+1, "stops-at-first-success")
		if conn != nil {
			verifAssert(r.WorkingHelloID != nil && *r.WorkingHelloID == zzAttempts[zzSucceedAt] && conn.ClientHelloID == zzAttempts[zzSucceedAt], "records-working-id")
			verifAssert(conn.config.ServerName == "roller.example", "sni-is-given-name")
		}
	default:
		verifReach("exhausted")
		verifAssert(conn == nil && err != nil, "error-when-every-id-fails")
		verifAssert(len(zzAttempts) == total, "every-id-tried-once")
	}
}
