package tls

type zzLRUEntry struct {
	key string
	val *ClientSessionState
}

// zzRefLRU is a sequential LRU map of bounded capacity (most recent first).
type zzRefLRU struct {
	cap     int
	entries []zzLRUEntry
}

func (r *zzRefLRU) find(k string) int {
	for i := range r.entries {
		if r.entries[i].key == k {
			return i
		}
	}
	return -1
}

func (r *zzRefLRU) touch(i int) {
	e := r.entries[i]
	copy(r.entries[1:i+1], r.entries[:i])
	r.entries[0] = e
}

func (r *zzRefLRU) get(k string) (*ClientSessionState, bool) {
	i := r.find(k)
	if i < 0 {
		return nil, false
	}
	r.touch(i)
	return r.entries[0].val, true
}

func (r *zzRefLRU) put(k string, v *ClientSessionState) {
	i := r.find(k)
	if v == nil {
		if i >= 0 {
			r.entries = append(r.entries[:i], r.entries[i+1:]...)
		}
		return
	}
	if i >= 0 {
		r.entries[i].val = v
		r.touch(i)
		return
	}
	if len(r.entries) >= r.cap {
		r.entries = r.entries[:r.cap-1]
	}
	r.entries = append([]zzLRUEntry{{k, v}}, r.entries...)
}

func zzC36Body(maxOps, maxCap, alphabet int) {
	capacity := 1 + verifChoice("cap", maxCap)
	c := NewLRUClientSessionCache(capacity).(*lruSessionCache)
	ref := &zzRefLRU{cap: capacity}
	vals := []*ClientSessionState{{}, {}, {}}
	nops := 1 + verifChoice("nops", maxOps)
	for op := 0; op < nops; op++ {
		k := verifString("key", 1)
		// the map is a concrete container in the engine: the key byte is drawn
		// from a small alphabet (enough letters to overflow the capacity)
		verifAssume(k[0] >= 'a' && k[0] < 'a'+byte(alphabet))
		if verifBool("isput") {
			vi := verifChoice("val", 3)
			var v *ClientSessionState
			if vi < 2 {
				v = vals[vi]
			}
			if v == nil && ref.find(k) < 0 {
				// documented: Put(key, nil) removes the entry
				c.Put(k, nil)
				_, present := c.m[k]
				verifAssertClass(!present, "put-nil-removes", "absent-key-inserts-nil-entry")
				verifReach("end")
				return
			}
			c.Put(k, v)
			ref.put(k, v)
		} else {
			gv, gok := c.Get(k)
			rv, rok := ref.get(k)
			verifAssert(gok == rok, "get-found-agrees")
			verifAssert(gv == rv, "get-value-agrees")
		}
		// representation invariant
		verifAssert(c.q.Len() <= capacity, "never-exceeds-capacity")
		verifAssert(len(c.m) == c.q.Len(), "map-and-list-same-size")
		verifAssert(c.q.Len() == len(ref.entries), "size-agrees")
		i := 0
		for e := c.q.Front(); e != nil; e = e.Next() {
			ent := e.Value.(*lruSessionCacheEntry)
			verifAssert(c.m[ent.sessionKey] == e, "map-points-to-list-element")
			if i < len(ref.entries) {
				verifAssert(ent.sessionKey == ref.entries[i].key && ent.state == ref.entries[i].val, "recency-order-agrees")
			}
			i++
		}
	}
	verifReach("end")
}

//verif:harness C36 lru_vs_reference unwind=64 paths=60000
//verif:expect end
//verif:doc lruSessionCache vs a reference LRU for capacity 1..3 and every history of 1..3 Put/Get operations with capacity 1..2; keys are 1-byte strings over a 3-letter alphabet, values two distinct pointers or nil. Every method body runs entirely inside Lock/Unlock (engine lock-discipline check).
func zzC36LRU() { zzC36Body(3, 2, 3) }

//verif:harness C36 lru_vs_reference_long tier=thorough unwind=64 paths=2000000 wall=3000
//verif:expect end
//verif:doc Same with capacity 1..3, a 4-letter alphabet and histories of up to 4 operations.
func zzC36LRULong() { zzC36Body(4, 3, 4) }
