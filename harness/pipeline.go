package tls

import (
	"io"
	mrand "math/rand"
	"net"
	"time"
)

// Shared machinery for the ClientHello build pipeline harnesses (C01-C06,
// C13, C16-C18): UClient -> BuildHandshakeState -> ApplyPreset -> ApplyConfig
// -> MarshalClientHello runs for real; randomness is a symbolic stream.

type zzParrot struct {
	name string
	id   ClientHelloID
}

// zzRandReader is Config.Rand: every byte is an arbitrary input ("rand#k").
type zzRandReader struct{}

func (zzRandReader) Read(b []byte) (int, error) {
	copy(b, verifBytes("rand", len(b)))
	return len(b), nil
}

var _ io.Reader = zzRandReader{}

// zzRecConn records what the client writes; reads serve a scripted flight.
type zzRecConn struct {
	written [][]byte
	toRead  []byte
	closed  bool
}

func (c *zzRecConn) Read(b []byte) (int, error) {
	if len(c.toRead) == 0 {
		return 0, io.EOF
	}
	n := copy(b, c.toRead)
	c.toRead = c.toRead[n:]
	return n, nil
}
func (c *zzRecConn) Write(b []byte) (int, error) {
	c.written = append(c.written, append([]byte{}, b...))
	return len(b), nil
}
func (c *zzRecConn) Close() error                       { c.closed = true; return nil }
func (c *zzRecConn) LocalAddr() net.Addr                { return nil }
func (c *zzRecConn) RemoteAddr() net.Addr               { return nil }
func (c *zzRecConn) SetDeadline(t time.Time) error      { return nil }
func (c *zzRecConn) SetReadDeadline(t time.Time) error  { return nil }
func (c *zzRecConn) SetWriteDeadline(t time.Time) error { return nil }

func zzFixedTime() time.Time { return time.Unix(1790000000, 0) }

func zzConfig(serverName string) *Config {
	return &Config{ServerName: serverName, Rand: zzRandReader{}, Time: zzFixedTime, InsecureSkipVerify: serverName == ""}
}

// zzBuild builds the hello for id with the given config and returns the
// UConn and the build error.
func zzBuild(id ClientHelloID, cfg *Config) (*UConn, *zzRecConn, error) {
	conn := &zzRecConn{}
	uc := UClient(conn, cfg, id)
	err := uc.BuildHandshakeState()
	return uc, conn, err
}

// zzCheckHelloSyntax runs the strict reference grammar on raw.
func zzCheckHelloSyntax(raw []byte, class string) (zzRefHello, bool) {
	h, why := zzRefParseClientHello(raw)
	verifAssertClass(why == "", "hello-parses-strictly", class+":"+why)
	if why != "" {
		return h, false
	}
	for _, e := range h.exts {
		w := zzRefCheckExtBody(e.typ, e.body)
		verifAssertClass(w == "", "extension-body-grammar", class+":"+w)
	}
	return h, true
}

// zzStubShuffle replaces (*math/rand.Rand).Shuffle by its contract: swap(i, j)
// is only ever called with 0 <= j <= i < n. The quick tier performs no swap
// (identity permutation); the thorough tier performs one arbitrary legal swap.
// That every legal swap preserves the multiset and the fixed positions is a
// separate one-step lemma (C03 shuffle_swap_lemma).
func zzStubShuffle(r *mrand.Rand, n int, swap func(i, j int)) {
	if n < 2 || !verifThorough() || zzNoShuffle {
		return
	}
	if verifBool("shuffle-swaps") {
		i := 1 + verifChoice("shuffle-i", n-1)
		j := verifChoice("shuffle-j", i+1)
		swap(i, j)
	}
}

// zzPredefinedParrots: the browser parrots among the generated table of every
// exported ClientHelloID (HelloGolang, HelloCustom and the randomized ids are
// handled by their own harnesses).
func zzPredefinedParrots() []zzParrot {
	var out []zzParrot
	for _, p := range zzAllHelloIDs {
		switch p.id.Client {
		case helloGolang, helloCustom, helloRandomized, helloRandomizedALPN, helloRandomizedNoALPN:
			continue
		}
		out = append(out, p)
	}
	return out
}

// zzChooseParrotSample: every predefined parrot in the thorough tier, every
// fifth one (a fixed, stated subset) in the quick tier — for harnesses whose
// per-parrot exploration is expensive.
func zzChooseParrotSample() zzParrot {
	ps := zzPredefinedParrots()
	if verifThorough() {
		return ps[verifChoice("parrot", len(ps))]
	}
	var sub []zzParrot
	for i := 0; i < len(ps); i += 5 {
		sub = append(sub, ps[i])
	}
	return sub[verifChoice("parrot", len(sub))]
}
