package tls

import "context"

var zzEntered13, zzEntered12 bool

func zzStubHandshake13(hs *clientHandshakeStateTLS13) error { zzEntered13 = true; return nil }
func zzStubHandshake12(hs *clientHandshakeState) error     { zzEntered12 = true; return nil }

// zzAdvertisedVersions: what the on-wire hello advertises — the non-GREASE
// entries of supported_versions if present, else [specMin .. legacy_version].
func zzAdvertisedVersions(h *zzRefHello, specMin uint16, specSV []uint16) []uint16 {
	if b, ok := h.ext(43); ok {
		vs, _ := zzRefU16ListBody(b, 1)
		var out []uint16
		for i, v := range vs {
			if i < len(specSV) && zzRefIsGREASE16Concrete(specSV[i]) {
				continue
			}
			out = append(out, v)
		}
		return out
	}
	var out []uint16
	for v := specMin; v <= h.legacyVersion; v++ {
		out = append(out, v)
	}
	return out
}

//verif:harness C13 version_only_if_advertised unwind=4000 instrs=400000000 paths=200000 wall=3000
//verif:stub (*math/rand.Rand).Shuffle zzStubShuffleIdentity
//verif:stub (*utls.Conn).readHandshake zzStubReadHandshake
//verif:stub (*utls.Conn).sendAlert zzStubSendAlert
//verif:stub (*utls.clientHandshakeStateTLS13).handshake zzStubHandshake13
//verif:stub (*utls.clientHandshakeState).handshake zzStubHandshake12
//verif:expect entered rejected
//verif:doc UConn.clientHandshake for every predefined parrot x application Config version bounds {unset, MinVersion=1.0, MinVersion=1.0 and MaxVersion=1.3} with an arbitrary ServerHello (legacy version, supported_versions value and the last 8 random bytes symbolic): a TLS 1.2 / 1.3 sub-handshake is entered at version v only if v is advertised on the wire (supported_versions entries if the extension is present, else spec minimum .. legacy_version); when TLS 1.3 was offered and v <= 1.2, a ServerHello carrying an RFC 8446 downgrade sentinel is rejected.
func zzC13VersionOnlyIfAdvertised() {
	p := zzChooseParrot()
	cfg := zzConfig("example.com")
	cfg.OmitEmptyPsk = true
	// the application's own version bounds must not widen what the parrot advertises
	switch verifChoice("app-config-versions", 3) {
	case 1:
		cfg.MinVersion = VersionTLS10
	case 2:
		cfg.MinVersion, cfg.MaxVersion = VersionTLS10, VersionTLS13
	}
	uc, _, err := zzBuild(p.id, cfg)
	if err != nil {
		verifReach("entered")
		verifReach("rejected")
		return
	}
	h, why := zzRefParseClientHello(uc.HandshakeState.Hello.Raw)
	verifAssertClass(why == "", "hello-parses-strictly", p.name+":"+why)
	spec, _ := zzRefSpec(p.id)
	var specSV []uint16
	for _, e := range spec.Extensions {
		if sv, ok := e.(*SupportedVersionsExtension); ok {
			specSV = sv.Versions
		}
	}
	specMin := spec.TLSVersMin
	if specMin == 0 {
		specMin = VersionTLS10
	}
	adv := zzAdvertisedVersions(&h, specMin, specSV)
	zzC13Drive(uc, adv, p.name)
}

// zzC13Drive: an arbitrary ServerHello meets the built hello; the version the
// client proceeds with must be one of adv.
func zzC13Drive(uc *UConn, adv []uint16, name string) {
	sh := &serverHelloMsg{vers: verifU16("sh-vers"), supportedVersion: verifU16("sh-supported-version"), random: make([]byte, 32)}
	copy(sh.random[24:], verifBytes("sh-random-tail", 8))
	zzInbox = []any{sh}
	zzEntered12, zzEntered13, zzAlerts = false, false, nil
	herr := uc.clientHandshake(context.Background())
	entered := zzEntered12 || zzEntered13
	if entered {
		verifReach("entered")
		v := uc.vers
		in := false
		for _, a := range adv {
			in = verifOr(in, a == v)
		}
		verifAssertClass(in, "negotiated-version-was-advertised", name)
		verifAssertClass(zzEntered13 == (v == VersionTLS13), "sub-handshake-matches-version", name)
		offered13 := false
		for _, a := range adv {
			if a == VersionTLS13 {
				offered13 = true
			}
		}
		tail := string(sh.random[24:])
		if offered13 && v <= VersionTLS12 {
			verifAssertClass(tail != "DOWNGRD\x01" && tail != "DOWNGRD\x00", "downgrade-sentinel-rejected", name)
		}
	} else {
		verifReach("rejected")
		verifAssertClass(herr != nil, "error-when-not-entered", name)
	}
}

//verif:harness C13 custom_spec_version_only_if_advertised unwind=4000 instrs=400000000 paths=100000 wall=1500
//verif:stub (*utls.Conn).readHandshake zzStubReadHandshake
//verif:stub (*utls.Conn).sendAlert zzStubSendAlert
//verif:stub (*utls.clientHandshakeStateTLS13).handshake zzStubHandshake13
//verif:stub (*utls.clientHandshakeState).handshake zzStubHandshake12
//verif:expect entered rejected
//verif:doc The same decision for custom specs that state their versions in every way ApplyPreset accepts: a supported_versions extension listing {1.3,1.2}, {1.3}, {GREASE,1.3,1.2,1.1}, {1.2,1.1,1.0} or {1.2} with TLSVersMin/Max left 0 (derived from the extension), or no supported_versions extension and explicit TLSVersMin in {1.0,1.1,1.2} with TLSVersMax in {1.1,1.2} (min <= max): against an arbitrary ServerHello the client proceeds only at a version the wire hello advertises, and rejects the downgrade sentinels when it offered TLS 1.3.
func zzC13CustomSpecVersionOnlyIfAdvertised() {
	var spec ClientHelloSpec
	var specSV []uint16
	specMin := uint16(VersionTLS10)
	lists := [][]uint16{{VersionTLS13, VersionTLS12}, {VersionTLS13}, {GREASE_PLACEHOLDER, VersionTLS13, VersionTLS12, VersionTLS11}, {VersionTLS12, VersionTLS11, VersionTLS10}, {VersionTLS12}}
	k := verifChoice("version-shape", len(lists)+1)
	base := []TLSExtension{&SNIExtension{}, &SupportedCurvesExtension{Curves: []CurveID{X25519, CurveP256}}, &SupportedPointsExtension{SupportedPoints: []byte{0}},
		&SignatureAlgorithmsExtension{SupportedSignatureAlgorithms: []SignatureScheme{ECDSAWithP256AndSHA256, PSSWithSHA256}}}
	if k < len(lists) {
		specSV = lists[k]
		exts := append(base, &KeyShareExtension{KeyShares: []KeyShare{{Group: X25519}}}, &SupportedVersionsExtension{Versions: append([]uint16{}, specSV...)})
		spec = ClientHelloSpec{CipherSuites: []uint16{TLS_AES_128_GCM_SHA256, TLS_ECDHE_RSA_WITH_AES_128_GCM_SHA256}, CompressionMethods: []uint8{0}, Extensions: exts}
	} else {
		mins := []uint16{VersionTLS10, VersionTLS11, VersionTLS12}
		maxs := []uint16{VersionTLS11, VersionTLS12}
		mn, mx := mins[verifChoice("spec-min", 3)], maxs[verifChoice("spec-max", 2)]
		if mn > mx {
			verifReach("entered")
			verifReach("rejected")
			return
		}
		specMin = mn
		spec = ClientHelloSpec{TLSVersMin: mn, TLSVersMax: mx, CipherSuites: []uint16{TLS_ECDHE_RSA_WITH_AES_128_GCM_SHA256, TLS_RSA_WITH_AES_128_CBC_SHA}, CompressionMethods: []uint8{0}, Extensions: base}
	}
	cfg := zzConfig("example.com")
	uc := UClient(&zzRecConn{}, cfg, HelloCustom)
	if err := uc.ApplyPreset(&spec); err != nil {
		verifFail("apply-preset", "custom-version-shape")
		return
	}
	if err := uc.BuildHandshakeState(); err != nil {
		verifFail("build", "custom-version-shape")
		return
	}
	h, why := zzRefParseClientHello(uc.HandshakeState.Hello.Raw)
	verifAssertClass(why == "", "hello-parses-strictly", "custom-version-shape:"+why)
	if why != "" {
		return
	}
	adv := zzAdvertisedVersions(&h, specMin, specSV)
	zzC13Drive(uc, adv, "custom-version-shape")
}
