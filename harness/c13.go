package tls

import "context"

var zzEntered13, zzEntered12 bool

func zzStubHandshake13(hs *clientHandshakeStateTLS13) error { zzEntered13 = true; return nil }
func zzStubHandshake12(hs *clientHandshakeState) error     { zzEntered12 = true; return nil }

// zzAdvertisedVersions: what the on-wire hello advertises — the non-GREASE
// entries of supported_versions if present, else [specMin .. legacy_version].
func zzAdvertisedVersions(h *zzRefHello, specMin uint16, specSV []uint16) []uint16 {
	if b, ok := h.ext(43); ok {
		vs, _ := zzRefU16ListBody(b, 1)
		var out []uint16
		for i, v := range vs {
			if i < len(specSV) && zzRefIsGREASE16Concrete(specSV[i]) {
				continue
			}
			out = append(out, v)
		}
		return out
	}
	var out []uint16
	for v := specMin; v <= h.legacyVersion; v++ {
		out = append(out, v)
	}
	return out
}

//verif:harness C13 version_only_if_advertised unwind=4000 instrs=400000000 paths=200000 wall=3000
//verif:stub (*math/rand.Rand).Shuffle zzStubShuffleIdentity
//verif:stub (*utls.Conn).readHandshake zzStubReadHandshake
//verif:stub (*utls.Conn).sendAlert zzStubSendAlert
//verif:stub (*utls.clientHandshakeStateTLS13).handshake zzStubHandshake13
//verif:stub (*utls.clientHandshakeState).handshake zzStubHandshake12
//verif:expect entered rejected
//verif:doc UConn.clientHandshake for every predefined parrot with an arbitrary ServerHello (legacy version, supported_versions value and the last 8 random bytes symbolic): a TLS 1.2 / 1.3 sub-handshake is entered at version v only if v is advertised on the wire (supported_versions entries if the extension is present, else spec minimum .. legacy_version); when TLS 1.3 was offered and v <= 1.2, a ServerHello carrying an RFC 8446 downgrade sentinel is rejected.
func zzC13VersionOnlyIfAdvertised() {
	p := zzChooseParrot()
	cfg := zzConfig("example.com")
	cfg.OmitEmptyPsk = true
	uc, _, err := zzBuild(p.id, cfg)
	if err != nil {
		verifReach("entered")
		verifReach("rejected")
		return
	}
	h, why := zzRefParseClientHello(uc.HandshakeState.Hello.Raw)
	verifAssertClass(why == "", "hello-parses-strictly", p.name+":"+why)
	spec, _ := zzRefSpec(p.id)
	var specSV []uint16
	for _, e := range spec.Extensions {
		if sv, ok := e.(*SupportedVersionsExtension); ok {
			specSV = sv.Versions
		}
	}
	specMin := spec.TLSVersMin
	if specMin == 0 {
		specMin = VersionTLS10
	}
	adv := zzAdvertisedVersions(&h, specMin, specSV)
	sh := &serverHelloMsg{vers: verifU16("sh-vers"), supportedVersion: verifU16("sh-supported-version"), random: make([]byte, 32)}
	copy(sh.random[24:], verifBytes("sh-random-tail", 8))
	zzInbox = []any{sh}
	zzEntered12, zzEntered13, zzAlerts = false, false, nil
	herr := uc.clientHandshake(context.Background())
	entered := zzEntered12 || zzEntered13
	if entered {
		verifReach("entered")
		v := uc.vers
		in := false
		for _, a := range adv {
			in = verifOr(in, a == v)
		}
		verifAssertClass(in, "negotiated-version-was-advertised", p.name)
		verifAssertClass(zzEntered13 == (v == VersionTLS13), "sub-handshake-matches-version", p.name)
		offered13 := false
		for _, a := range adv {
			if a == VersionTLS13 {
				offered13 = true
			}
		}
		tail := string(sh.random[24:])
		if offered13 && v <= VersionTLS12 {
			verifAssertClass(tail != "DOWNGRD\x01" && tail != "DOWNGRD\x00", "downgrade-sentinel-rejected", p.name)
		}
	} else {
		verifReach("rejected")
		verifAssertClass(herr != nil, "error-when-not-entered", p.name)
	}
}
