package tls

// Shared reference encoders / decoders written from the RFCs, independent of
// the encoders under check.

func zzU16(v uint16) []byte { return []byte{byte(v >> 8), byte(v)} }

func zzVec8(b []byte) []byte { return append([]byte{byte(len(b))}, b...) }

func zzVec16(b []byte) []byte { return append([]byte{byte(len(b) >> 8), byte(len(b))}, b...) }

func zzVec24(b []byte) []byte {
	return append([]byte{byte(len(b) >> 16), byte(len(b) >> 8), byte(len(b))}, b...)
}

// zzTLV is an extension: type(2) length(2) body.
func zzTLV(typ uint16, body []byte) []byte {
	out := append(zzU16(typ), zzU16(uint16(len(body)))...)
	return append(out, body...)
}

func zzCat(parts ...[]byte) []byte {
	var out []byte
	for _, p := range parts {
		out = append(out, p...)
	}
	return out
}

func zzU16List(vs []uint16) []byte {
	var out []byte
	for _, v := range vs {
		out = append(out, byte(v>>8), byte(v))
	}
	return out
}

func zzRefUnGREASE(v uint16) uint16 {
	return verifIteU16(zzRefIsGREASE16(v), 0x0a0a, v)
}

// zzRefExt is one parsed extension.
type zzRefExt struct {
	typ  uint16
	body []byte
}

// zzRefHello is the strict reference parse of a ClientHello handshake message.
type zzRefHello struct {
	legacyVersion uint16
	random        []byte
	sessionID     []byte
	suites        []uint16
	compression   []byte
	exts          []zzRefExt
	hasExts       bool
}

// zzRefParseClientHello parses msg = handshake header(4) + body strictly:
// every length prefix must be consumed exactly, no duplicate extension types,
// pre_shared_key (41) last. It returns a reason string on failure.
func zzRefParseClientHello(msg []byte) (h zzRefHello, why string) {
	if len(msg) < 4 {
		return h, "short-header"
	}
	if msg[0] != 1 {
		return h, "not-client-hello"
	}
	n := int(msg[1])<<16 | int(msg[2])<<8 | int(msg[3])
	b := msg[4:]
	if n != len(b) {
		return h, "handshake-length-mismatch"
	}
	if len(b) < 2+32+1 {
		return h, "short-body"
	}
	h.legacyVersion = uint16(b[0])<<8 | uint16(b[1])
	h.random = b[2:34]
	b = b[34:]
	sl := int(b[0])
	b = b[1:]
	if sl > 32 || len(b) < sl {
		return h, "bad-session-id"
	}
	h.sessionID = b[:sl]
	b = b[sl:]
	if len(b) < 2 {
		return h, "short-suites"
	}
	cl := int(b[0])<<8 | int(b[1])
	b = b[2:]
	if cl < 2 || cl%2 != 0 || len(b) < cl {
		return h, "bad-suites-length"
	}
	for i := 0; i < cl; i += 2 {
		h.suites = append(h.suites, uint16(b[i])<<8|uint16(b[i+1]))
	}
	b = b[cl:]
	if len(b) < 1 {
		return h, "short-compression"
	}
	ml := int(b[0])
	b = b[1:]
	if ml < 1 || len(b) < ml {
		return h, "bad-compression"
	}
	h.compression = b[:ml]
	b = b[ml:]
	if len(b) == 0 {
		return h, ""
	}
	h.hasExts = true
	if len(b) < 2 {
		return h, "short-extensions-length"
	}
	el := int(b[0])<<8 | int(b[1])
	b = b[2:]
	if el != len(b) {
		return h, "extensions-length-mismatch"
	}
	for len(b) > 0 {
		if len(b) < 4 {
			return h, "short-extension-header"
		}
		t := uint16(b[0])<<8 | uint16(b[1])
		l := int(b[2])<<8 | int(b[3])
		b = b[4:]
		if len(b) < l {
			return h, "extension-body-overrun"
		}
		for _, e := range h.exts {
			if e.typ == t {
				return h, "duplicate-extension"
			}
		}
		h.exts = append(h.exts, zzRefExt{t, b[:l]})
		b = b[l:]
	}
	for i, e := range h.exts {
		if e.typ == 41 && i != len(h.exts)-1 {
			return h, "psk-not-last"
		}
	}
	return h, ""
}

func (h *zzRefHello) ext(t uint16) ([]byte, bool) {
	for _, e := range h.exts {
		if e.typ == t {
			return e.body, true
		}
	}
	return nil, false
}

// zzRefVec16Items splits body = len16 || items where each item is a u16.
func zzRefU16ListBody(body []byte, lenBytes int) ([]uint16, bool) {
	if len(body) < lenBytes {
		return nil, false
	}
	n := 0
	for i := 0; i < lenBytes; i++ {
		n = n<<8 | int(body[i])
	}
	body = body[lenBytes:]
	if n != len(body) || n%2 != 0 {
		return nil, false
	}
	var out []uint16
	for i := 0; i < n; i += 2 {
		out = append(out, uint16(body[i])<<8|uint16(body[i+1]))
	}
	return out, true
}

// zzRefCheckExtBody validates the body grammar of known extensions (RFC 6066,
// 7301, 7627, 7685, 8446 §4.2, 8449, 8879, draft-ietf-tls-esni). Unknown types
// are accepted. Returns "" if well-formed.
func zzRefCheckExtBody(t uint16, b []byte) string {
	switch t {
	case 0: // server_name
		if len(b) < 2 {
			return "sni-short"
		}
		n := int(b[0])<<8 | int(b[1])
		b = b[2:]
		if n != len(b) || n == 0 {
			return "sni-list-length"
		}
		for len(b) > 0 {
			if len(b) < 3 {
				return "sni-entry-short"
			}
			l := int(b[1])<<8 | int(b[2])
			if l == 0 || len(b) < 3+l {
				return "sni-name-length"
			}
			b = b[3+l:]
		}
	case 5: // status_request
		if len(b) < 5 || b[0] != 1 {
			return "status-request"
		}
		r := int(b[1])<<8 | int(b[2])
		if len(b) < 3+r+2 {
			return "status-request-responder"
		}
		x := int(b[3+r])<<8 | int(b[3+r+1])
		if len(b) != 3+r+2+x {
			return "status-request-ext"
		}
	case 10: // supported_groups
		if vs, ok := zzRefU16ListBody(b, 2); !ok || len(vs) == 0 {
			return "supported-groups"
		}
	case 11: // ec_point_formats
		if len(b) < 2 || int(b[0]) != len(b)-1 {
			return "ec-point-formats"
		}
	case 13, 50, 34: // signature_algorithms(_cert), delegated_credentials
		if vs, ok := zzRefU16ListBody(b, 2); !ok || len(vs) == 0 {
			return "signature-algorithms"
		}
	case 16, 17513, 17613: // ALPN, ALPS
		if len(b) < 2 {
			return "alpn-short"
		}
		n := int(b[0])<<8 | int(b[1])
		b = b[2:]
		if n != len(b) || n == 0 {
			return "alpn-list-length"
		}
		for len(b) > 0 {
			l := int(b[0])
			if l == 0 || len(b) < 1+l {
				return "alpn-name"
			}
			b = b[1+l:]
		}
	case 18, 23, 13172, 30031, 30032: // SCT (client), EMS, NPN, channel id: empty
		if len(b) != 0 {
			return "nonempty-flag-extension"
		}
	case 21: // padding
		for _, x := range b {
			if x != 0 {
				return "padding-nonzero"
			}
		}
	case 27: // compress_certificate
		if vs, ok := zzRefU16ListBody(b, 1); !ok || len(vs) == 0 {
			return "compress-certificate"
		}
	case 28: // record_size_limit
		if len(b) != 2 {
			return "record-size-limit"
		}
	case 43: // supported_versions
		if vs, ok := zzRefU16ListBody(b, 1); !ok || len(vs) == 0 {
			return "supported-versions"
		}
	case 44: // cookie
		if len(b) < 3 || int(b[0])<<8|int(b[1]) != len(b)-2 {
			return "cookie"
		}
	case 45: // psk_key_exchange_modes
		if len(b) < 2 || int(b[0]) != len(b)-1 {
			return "psk-modes"
		}
	case 51: // key_share
		if len(b) < 2 {
			return "key-share-short"
		}
		n := int(b[0])<<8 | int(b[1])
		b = b[2:]
		if n != len(b) {
			return "key-share-length"
		}
		for len(b) > 0 {
			if len(b) < 4 {
				return "key-share-entry-short"
			}
			l := int(b[2])<<8 | int(b[3])
			if l == 0 || len(b) < 4+l {
				return "key-share-entry-length"
			}
			b = b[4+l:]
		}
	case 41: // pre_shared_key
		if len(b) < 2 {
			return "psk-short"
		}
		n := int(b[0])<<8 | int(b[1])
		b = b[2:]
		if n < 7 || len(b) < n {
			return "psk-identities-length"
		}
		ids := b[:n]
		b = b[n:]
		cnt := 0
		for len(ids) > 0 {
			if len(ids) < 2 {
				return "psk-identity-short"
			}
			l := int(ids[0])<<8 | int(ids[1])
			if l == 0 || len(ids) < 2+l+4 {
				return "psk-identity-length"
			}
			ids = ids[2+l+4:]
			cnt++
		}
		if len(b) < 2 {
			return "psk-binders-short"
		}
		m := int(b[0])<<8 | int(b[1])
		b = b[2:]
		if m != len(b) || m < 33 {
			return "psk-binders-length"
		}
		bc := 0
		for len(b) > 0 {
			l := int(b[0])
			if l < 32 || len(b) < 1+l {
				return "psk-binder-length"
			}
			b = b[1+l:]
			bc++
		}
		if bc != cnt {
			return "psk-binder-count"
		}
	case 0xff01: // renegotiation_info
		if len(b) < 1 || int(b[0]) != len(b)-1 {
			return "renegotiation-info"
		}
	case 0xfe0d: // encrypted_client_hello (outer)
		if len(b) < 1 {
			return "ech-short"
		}
		if b[0] == 1 {
			if len(b) != 1 {
				return "ech-inner-nonempty"
			}
			return ""
		}
		if b[0] != 0 || len(b) < 1+4+1+2 {
			return "ech-outer-short"
		}
		b = b[6:]
		kl := int(b[0])<<8 | int(b[1])
		b = b[2:]
		if len(b) < kl+2 {
			return "ech-enc-length"
		}
		b = b[kl:]
		pl := int(b[0])<<8 | int(b[1])
		b = b[2:]
		if pl != len(b) || pl == 0 {
			return "ech-payload-length"
		}
	}
	return ""
}
