package tls

import (
	mrand "math/rand"
)

// ---- PRNG contract stubs: the SHAKE256 stream is an uninterpreted function
// of (seed, salt, position); FlipWeightedCoin obeys its corner contract
// (proved of the real function in C30) and is otherwise the stream's bit. ----

type zzPrngStream struct {
	seed  []byte
	salt  string
	draws []uint64
}

type zzPrngInfo struct {
	st  *zzPrngStream
	pos int
}

var zzPrngs map[*prng]*zzPrngInfo
var zzPrngStreams []*zzPrngStream

// zzNewStubPRNG: the stream is a function of (seed, salt): a PRNG created
// again from an equal seed and salt replays the same draws; any other seed
// gets fresh arbitrary draws. Each draw is an arbitrary input ("draw#k").
func zzNewStubPRNG(seed []byte, salt string) *prng {
	p := &prng{}
	p.rand = mrand.New(p)
	if zzPrngs == nil {
		zzPrngs = map[*prng]*zzPrngInfo{}
	}
	var st *zzPrngStream
	for _, s := range zzPrngStreams {
		if s.salt == salt && zzBytesEq(s.seed, seed) {
			st = s
			break
		}
	}
	if st == nil {
		st = &zzPrngStream{seed: append([]byte{}, seed...), salt: salt}
		zzPrngStreams = append(zzPrngStreams, st)
	}
	zzPrngs[p] = &zzPrngInfo{st: st}
	return p
}

func zzStubNewPRNGWithSeed(seed *PRNGSeed) (*prng, error) { return zzNewStubPRNG(seed[:], ""), nil }
func zzStubNewPRNGWithSaltedSeed(seed *PRNGSeed, salt string) (*prng, error) {
	return zzNewStubPRNG(seed[:], salt), nil
}

func zzNextDraw(p *prng, what string) uint64 {
	inf := zzPrngs[p]
	if inf.pos == len(inf.st.draws) {
		inf.st.draws = append(inf.st.draws, verifU64("draw"))
	}
	inf.pos++
	return inf.st.draws[inf.pos-1]
}

func zzStubFlipWeightedCoin(p *prng, w float64) bool {
	if w <= 0 {
		return false
	}
	if w >= 1 {
		return true
	}
	return zzNextDraw(p, "coin")&1 == 1
}

func zzStubPrngIntn(p *prng, n int) int {
	if n <= 0 {
		return 0
	}
	d := zzNextDraw(p, "intn") % uint64(n)
	for k := 0; k < n-1; k++ {
		if d == uint64(k) {
			return k
		}
	}
	return n - 1
}

func zzStubPrngPerm(p *prng, n int) []int {
	out := make([]int, n)
	for i := range out {
		out[i] = i
	}
	return out
}

func zzStubShuffleIdentity(r *mrand.Rand, n int, swap func(i, j int)) {}

// zzStubShuffleRotateOrNot: a legal, deterministic Shuffle - either the identity
// or "always draw j = 0" (swap(i, 0) for i = n-1 .. 1), chosen per harness run.
var zzShuffleRotates bool

func zzStubShuffleRotateOrNot(r *mrand.Rand, n int, swap func(i, j int)) {
	if !zzShuffleRotates {
		return
	}
	for i := n - 1; i > 0; i-- {
		swap(i, 0)
	}
}

func zzHasExt[T TLSExtension](spec *ClientHelloSpec) (T, bool) {
	var zero T
	for _, e := range spec.Extensions {
		if x, ok := e.(T); ok {
			return x, true
		}
	}
	return zero, false
}

func zzW(name string, arbitrary bool) float64 {
	// a weight is 0, 1 or (when arbitrary is allowed) 0.5
	n := 2
	if arbitrary {
		n = 3
	}
	return []float64{0, 1, 0.5}[verifChoice(name, n)]
}

// zzC09Check asserts the consistency rules of C09 on a generated spec.
func zzC09Check(spec *ClientHelloSpec, w *Weights, withALPNForced int) {
	tls13 := spec.TLSVersMax == VersionTLS13
	verifAssert(spec.TLSVersMax == VersionTLS13 || spec.TLSVersMax == VersionTLS12, "max-version-12-or-13")
	if w.TLSVersMax_Set_VersionTLS13 == 0 {
		verifAssert(!tls13, "weight-0-means-no-tls13")
	}
	if w.TLSVersMax_Set_VersionTLS13 == 1 {
		verifAssert(tls13, "weight-1-means-tls13")
	}
	// suites: TLS 1.3 first, no RC4 with 1.3
	seenNon13, seenOld := false, false
	for _, s := range spec.CipherSuites {
		if zzIsTLS13Suite(s) {
			verifAssert(tls13 && !seenNon13, "tls13-suites-first-and-only-with-tls13")
		} else {
			seenNon13 = true
			cs := cipherSuiteByID(s)
			verifAssert(cs != nil, "suite-is-implemented")
			if cs != nil && cs.flags&suiteTLS12 == 0 {
				seenOld = true
			} else {
				verifAssert(!seenOld, "tls12-only-suites-before-older-ones")
			}
		}
		if tls13 {
			verifAssert(s != TLS_ECDHE_ECDSA_WITH_RC4_128_SHA && s != TLS_ECDHE_RSA_WITH_RC4_128_SHA && s != TLS_RSA_WITH_RC4_128_SHA, "no-rc4-with-tls13")
		}
	}
	verifAssert(len(spec.CipherSuites) > 0, "some-suite")
	sig, _ := zzHasExt[*SignatureAlgorithmsExtension](spec)
	hasPSS := false
	for _, s := range sig.SupportedSignatureAlgorithms {
		if s == PSSWithSHA256 {
			hasPSS = true
		}
	}
	_, hasPad := zzHasExt[*UtlsPaddingExtension](spec)
	_, hasALPN := zzHasExt[*ALPNExtension](spec)
	_, hasALPS := zzHasExt[*ApplicationSettingsExtension](spec)
	sv, hasSV := zzHasExt[*SupportedVersionsExtension](spec)
	ks, hasKS := zzHasExt[*KeyShareExtension](spec)
	curves, _ := zzHasExt[*SupportedCurvesExtension](spec)
	if tls13 {
		verifAssert(hasPSS, "tls13-has-rsa-pss")
		verifAssert(hasPad, "tls13-has-padding")
		verifAssert(hasSV && hasKS, "tls13-has-supported-versions-and-key-share")
		if hasSV {
			ok := len(sv.Versions) == int(spec.TLSVersMax-spec.TLSVersMin)+1
			for i, v := range sv.Versions {
				ok = ok && v == spec.TLSVersMax-uint16(i)
			}
			verifAssert(ok, "supported-versions-is-max-down-to-min")
		}
	} else {
		verifAssert(!hasSV && !hasKS, "no-tls13-extensions-below-13")
		if w.Extensions_Append_Padding == 0 {
			verifAssert(!hasPad, "weight-0-means-no-padding")
		}
		if w.SigAndHashAlgos_Append_PSSWithSHA256 == 0 {
			verifAssert(!hasPSS, "weight-0-means-no-pss")
		}
	}
	if w.Extensions_Append_Padding == 1 {
		verifAssert(hasPad, "weight-1-means-padding")
	}
	verifAssert(!hasALPS || hasALPN, "alps-only-with-alpn")
	if withALPNForced == 1 {
		verifAssert(hasALPN, "alpn-variant-has-alpn")
	} else if withALPNForced == 0 {
		verifAssert(!hasALPN, "noalpn-variant-has-no-alpn")
	}
	_, hasStatus := zzHasExt[*StatusRequestExtension](spec)
	_, hasSCT := zzHasExt[*SCTExtension](spec)
	_, hasReneg := zzHasExt[*RenegotiationInfoExtension](spec)
	_, hasEMS := zzHasExt[*ExtendedMasterSecretExtension](spec)
	for _, c := range []struct {
		w    float64
		has  bool
		name string
	}{{w.Extensions_Append_Status, hasStatus, "status"}, {w.Extensions_Append_SCT, hasSCT, "sct"}, {w.Extensions_Append_Reneg, hasReneg, "reneg"}, {w.Extensions_Append_EMS, hasEMS, "ems"}} {
		if c.w == 0 {
			verifAssertClass(!c.has, "weight-0-means-absent", c.name)
		}
		if c.w == 1 {
			verifAssertClass(c.has, "weight-1-means-present", c.name)
		}
	}
	// key shares vs supported groups
	if hasKS {
		for _, k := range ks.KeyShares {
			in := false
			for _, g := range curves.Curves {
				if g == k.Group {
					in = true
				}
			}
			if k.Group == X25519MLKEM768 {
				verifAssertClass(in, "key-share-group-listed-in-supported-groups", "hybrid-share-without-group")
			} else {
				verifAssertClass(in, "key-share-group-listed-in-supported-groups", "classical")
			}
		}
	}
	for _, g := range curves.Curves {
		if g == X25519MLKEM768 || g == X25519Kyber768Draft00 {
			has := false
			if hasKS {
				for _, k := range ks.KeyShares {
					if k.Group == g {
						has = true
					}
				}
			}
			verifAssertClass(has, "hybrid-group-carries-a-key-share", "hybrid-group-without-share")
		}
	}
}

//verif:harness C09 randomized_spec_consistent_and_reproducible unwind=4000 instrs=600000000 paths=400000 wall=1500
//verif:stub utls.newPRNGWithSeed zzStubNewPRNGWithSeed
//verif:stub utls.newPRNGWithSaltedSeed zzStubNewPRNGWithSaltedSeed
//verif:stub (*utls.prng).FlipWeightedCoin zzStubFlipWeightedCoin
//verif:stub (*utls.prng).Intn zzStubPrngIntn
//verif:stub (*utls.prng).Perm zzStubPrngPerm
//verif:stub (*math/rand.Rand).Shuffle zzStubShuffleRotateOrNot
//verif:expect end
//verif:assume the SHAKE256/HKDF stream is an arbitrary function of (seed, salt, position): equal seed and salt replay equal draws; FlipWeightedCoin follows its corner contract (decided for the real function in C30) and is otherwise a stream bit; Perm is the identity and Shuffle is either the identity or the legal deterministic permutation that always draws j = 0 (any permutation satisfies their contract; uniformity is outside the claim); random cipher removal is disabled here (weight 0) and covered by the order lemmas
//verif:doc generateRandomizedSpec for the three randomized ids with a symbolic seed: the weights that decide the structure of the offer (TLS 1.3, ALPN, PSS, X25519, P-521, padding, first key share, extra key shares, ALPS) are each 0 or 1, or all arbitrary (0.5); the thorough tier adds every combination with exactly one weight arbitrary and the others at 0/1; the remaining weights are all 0 or all 1. Every generated spec obeys the C09 consistency rules; weights 0 / 1 force absence / presence unless a TLS 1.3 rule overrides; generating twice from the same ClientHelloID yields structurally equal specs and leaves the library's default TLS 1.3 suite order untouched (any use of global randomness or the clock would break equality).
func zzC09RandomizedSpecConsistentAndReproducible() {
	zzPrngs, zzPrngStreams = nil, nil
	zzShuffleRotates = verifBool("shuffles-permute")
	defaults13 := append([]uint16{}, defaultCipherSuitesTLS13...)
	var seed PRNGSeed
	copy(seed[:], verifBytes("seed", 32))
	other := zzW("other-weights", false)
	// structural weights: each 0 or 1 ("corners"), or all arbitrary (0.5); the
	// thorough tier adds: exactly one weight (each in turn) arbitrary, the others at corners.
	allArb := verifBool("structural-weights-arbitrary")
	oneArb := -1
	if !allArb && verifThorough() && verifBool("one-weight-arbitrary") {
		oneArb = verifChoice("arbitrary-weight", 9)
	}
	swi := 0
	sw := func(name string) float64 {
		k := swi
		swi++
		if allArb || k == oneArb {
			return 0.5
		}
		return zzW(name, false)
	}
	w := &Weights{
		Extensions_Append_ALPN:                             sw("w-alpn"),
		TLSVersMax_Set_VersionTLS13:                        sw("w-tls13"),
		CipherSuites_Remove_RandomCiphers:                  0,
		SigAndHashAlgos_Append_ECDSAWithSHA1:               other,
		SigAndHashAlgos_Append_ECDSAWithP521AndSHA512:      other,
		SigAndHashAlgos_Append_PSSWithSHA256:               sw("w-pss"),
		SigAndHashAlgos_Append_PSSWithSHA384_PSSWithSHA512: other,
		CurveIDs_Append_X25519:                             sw("w-x25519"),
		CurveIDs_Append_CurveP521:                          other,
		Extensions_Append_Padding:                          sw("w-padding"),
		Extensions_Append_Status:                           other,
		Extensions_Append_SCT:                              other,
		Extensions_Append_Reneg:                            other,
		Extensions_Append_EMS:                              other,
		FirstKeyShare_Set_CurveP256:                        sw("w-first-p256"),
		KeyShare_Append_RandomGroups:                       sw("w-more-shares"),
		Extensions_Append_ALPS:                             sw("w-alps"),
	}
	clients := []string{helloRandomized, helloRandomizedALPN, helloRandomizedNoALPN}
	ci := verifChoice("variant", 3)
	id := &ClientHelloID{Client: clients[ci], Seed: &seed, Weights: w}
	spec, err := generateRandomizedSpec(id, "example.com", nil)
	verifAssert(err == nil, "generation-succeeds")
	if err != nil {
		return
	}
	forced := -1
	if ci == 1 {
		forced = 1
	} else if ci == 2 {
		forced = 0
	}
	zzC09Check(&spec, w, forced)
	// reproducibility
	id2 := &ClientHelloID{Client: clients[ci], Seed: &seed, Weights: w}
	spec2, err2 := generateRandomizedSpec(id2, "example.com", nil)
	verifAssert(err2 == nil && verifDeepEq(spec, spec2, "GetPaddingLen,initOnce"), "same-id-same-spec")
	okDef := len(defaults13) == len(defaultCipherSuitesTLS13)
	for i := range defaults13 {
		okDef = okDef && i < len(defaultCipherSuitesTLS13) && defaults13[i] == defaultCipherSuitesTLS13[i]
	}
	verifAssert(okDef, "library-default-suite-order-untouched")
	verifReach("end")
}

//verif:harness C09 cipher_order_lemmas unwind=400 paths=100000
//verif:stub (*utls.prng).FlipWeightedCoin zzStubFlipWeightedCoin
//verif:expect end
//verif:doc Order lemmas on the real helpers: sortableCiphers.Less on three entries with symbolic tags and obsolete flags is irreflexive, asymmetric and puts every non-obsolete suite before every obsolete one; removeRandomCiphers with arbitrary coins on 1..4 symbolic suites returns a subsequence that keeps index 0; removeRC4Ciphers removes exactly the three RC4 ids and keeps the order of the rest.
func zzC09CipherOrderLemmas() {
	zzPrngs, zzPrngStreams = nil, nil
	switch verifChoice("lemma", 3) {
	case 0:
		cs := sortableCiphers{{verifBool("o0"), verifInt("t0"), 1}, {verifBool("o1"), verifInt("t1"), 2}, {verifBool("o2"), verifInt("t2"), 3}}
		verifAssert(!cs.Less(0, 0), "less-irreflexive")
		if cs.Less(0, 1) {
			verifAssert(!cs.Less(1, 0), "less-asymmetric")
		}
		if !cs[0].isObsolete && cs[1].isObsolete {
			verifAssert(cs.Less(0, 1) && !cs.Less(1, 0), "non-obsolete-before-obsolete")
		}
		if cs.Less(0, 1) && cs.Less(1, 2) {
			verifAssert(cs.Less(0, 2), "less-transitive")
		}
	case 1:
		n := 1 + verifChoice("n", 4)
		in := zzU16s("suite", n)
		p := zzNewStubPRNG([]byte{7}, "")
		out := removeRandomCiphers(p, append([]uint16{}, in...), 0.5)
		verifAssert(len(out) >= 1 && len(out) <= n && out[0] == in[0], "keeps-first-suite")
		// subsequence: greedy match
		j := 0
		okSub := true
		for _, o := range out {
			found := false
			for j < n {
				j++
				if verifConcretizeBool(in[j-1] == o) {
					found = true
					break
				}
			}
			if !found {
				okSub = false
			}
		}
		verifAssert(okSub, "result-is-a-subsequence")
	case 2:
		n := 1 + verifChoice("n", 3)
		in := zzU16s("suite", n)
		out := removeRC4Ciphers(append([]uint16{}, in...))
		k := 0
		for _, s := range in {
			rc4 := s == TLS_ECDHE_ECDSA_WITH_RC4_128_SHA || s == TLS_ECDHE_RSA_WITH_RC4_128_SHA || s == TLS_RSA_WITH_RC4_128_SHA
			if verifConcretizeBool(rc4) {
				continue
			}
			verifAssert(k < len(out) && out[k] == s, "non-rc4-suites-kept-in-order")
			k++
		}
		verifAssert(k == len(out), "exactly-the-rc4-suites-removed")
	}
	verifReach("end")
}
