package tls

import (
	"bytes"
	"hash"
	"io"

	"golang.org/x/crypto/sha3"
)

// zzUFShake stands for SHAKE256: it records every byte absorbed and squeezes
// an uninterpreted function of (absorbed bytes, squeeze offset).
type zzUFShake struct {
	absorbed []byte
	off      int
}

func (s *zzUFShake) Write(p []byte) (int, error) {
	s.absorbed = append(s.absorbed, p...)
	return len(p), nil
}
func (s *zzUFShake) Read(p []byte) (int, error) {
	in := append(append([]byte{}, s.absorbed...), byte(s.off), byte(s.off>>8))
	copy(p, verifUFBytes("shake256", len(p), in))
	s.off += len(p)
	return len(p), nil
}
func (s *zzUFShake) Sum(b []byte) []byte { return b }
func (s *zzUFShake) Reset()              { s.absorbed, s.off = nil, 0 }
func (s *zzUFShake) Size() int           { return 64 }
func (s *zzUFShake) BlockSize() int      { return 136 }
func (s *zzUFShake) Clone() sha3.ShakeHash {
	return &zzUFShake{absorbed: append([]byte{}, s.absorbed...), off: s.off}
}

func zzStubNewShake256() sha3.ShakeHash { return &zzUFShake{} }

// zzUFHkdf stands for HKDF: it records its inputs and emits an uninterpreted
// function of (secret, salt, info, offset).
type zzUFHkdf struct {
	secret, salt, info []byte
	off                int
}

var zzHkdfCalls []*zzUFHkdf

func (h *zzUFHkdf) Read(p []byte) (int, error) {
	in := append(append([]byte{}, h.secret...), byte(len(h.salt)))
	in = append(append(in, h.salt...), byte(len(h.info)))
	in = append(append(in, h.info...), byte(h.off))
	copy(p, verifUFBytes("hkdf", len(p), in))
	h.off += len(p)
	return len(p), nil
}

func zzStubHkdfNew(_ func() hash.Hash, secret, salt, info []byte) io.Reader {
	h := &zzUFHkdf{secret: append([]byte{}, secret...), salt: append([]byte{}, salt...), info: append([]byte{}, info...)}
	zzHkdfCalls = append(zzHkdfCalls, h)
	return h
}

//verif:harness C30 seed_dataflow unwind=80
//verif:expect end
//verif:stub golang.org/x/crypto/sha3.NewShake256 zzStubNewShake256
//verif:assume SHAKE256 is an uninterpreted function of the bytes absorbed and the squeeze offset (the hash itself is not encoded)
//verif:doc newPRNGWithSeed for an arbitrary 32-byte seed: the sponge absorbs exactly the 32 seed bytes, in order, nothing else, before the first squeeze; the first 16 stream bytes returned by Read are the sponge's first 16 output bytes (two reads of 8 continue the stream, they do not restart it). Hence the stream is a function of the whole seed only (same seed => same stream on every run).
func zzC30SeedDataflow() {
	seed := new(PRNGSeed)
	copy(seed[:], verifBytes("seed", PRNGSeedLength))
	orig := *seed
	p, err := newPRNGWithSeed(seed)
	verifAssert(err == nil && p != nil, "prng-built")
	sh, ok := p.randomStream.(*zzUFShake)
	verifAssert(ok, "stream-is-the-shake-instance")
	verifAssert(bytes.Equal(sh.absorbed, orig[:]), "absorbs-exactly-the-seed")
	verifAssert(*seed == orig, "seed-not-modified")
	a := make([]byte, 8)
	b := make([]byte, 8)
	n1, e1 := p.Read(a)
	n2, e2 := p.Read(b)
	verifAssert(n1 == 8 && n2 == 8 && e1 == nil && e2 == nil, "read-returns-len-nil")
	verifAssert(bytes.Equal(sh.absorbed, orig[:]), "nothing-absorbed-after-seeding")
	ref := &zzUFShake{absorbed: append([]byte{}, orig[:]...)}
	ra := make([]byte, 8)
	rb := make([]byte, 8)
	ref.Read(ra)
	ref.Read(rb)
	verifAssert(bytes.Equal(a, ra), "first-read-is-stream-prefix")
	verifAssert(bytes.Equal(b, rb), "second-read-continues-stream")
	verifReach("end")
}

//verif:harness C30 salted_seed_dataflow unwind=80
//verif:expect end
//verif:stub golang.org/x/crypto/hkdf.New zzStubHkdfNew
//verif:stub golang.org/x/crypto/sha3.NewShake256 zzStubNewShake256
//verif:assume HKDF and SHAKE256 are uninterpreted functions of their full inputs (injectivity, i.e. that different salts give different seeds, is a property of the hash and outside the claim)
//verif:doc newSaltedPRNGSeed / newPRNGWithSaltedSeed for an arbitrary 32-byte seed and an arbitrary salt of 0..6 bytes: HKDF is invoked exactly once with secret = the whole seed, salt = the whole salt string, empty info; the salted seed is the first 32 HKDF output bytes; the PRNG built from it absorbs exactly that salted seed; the caller's seed is not modified. Hence salted seeds are a function of (seed, salt) only and every salt byte reaches the KDF.
func zzC30SaltedSeedDataflow() {
	seed := new(PRNGSeed)
	copy(seed[:], verifBytes("seed", PRNGSeedLength))
	orig := *seed
	n := verifChoice("saltlen", 7)
	salt := verifString("salt", n)
	zzHkdfCalls = nil
	ss, err := newSaltedPRNGSeed(seed, salt)
	verifAssert(err == nil && ss != nil, "salted-seed-built")
	verifAssert(len(zzHkdfCalls) == 1, "one-kdf-call")
	h := zzHkdfCalls[0]
	verifAssert(bytes.Equal(h.secret, orig[:]), "kdf-secret-is-whole-seed")
	verifAssert(string(h.salt) == salt, "kdf-salt-is-whole-salt")
	verifAssert(len(h.info) == 0, "kdf-info-empty")
	ref := &zzUFHkdf{secret: orig[:], salt: []byte(salt)}
	want := make([]byte, PRNGSeedLength)
	ref.Read(want)
	verifAssert(bytes.Equal(ss[:], want), "salted-seed-is-kdf-output-prefix")
	verifAssert(*seed == orig, "seed-not-modified")

	zzHkdfCalls = nil
	p, err := newPRNGWithSaltedSeed(seed, salt)
	verifAssert(err == nil && p != nil, "salted-prng-built")
	verifAssert(len(zzHkdfCalls) == 1 && bytes.Equal(zzHkdfCalls[0].secret, orig[:]) && string(zzHkdfCalls[0].salt) == salt, "salted-prng-kdf-inputs")
	sh, ok := p.randomStream.(*zzUFShake)
	verifAssert(ok && bytes.Equal(sh.absorbed, want), "salted-prng-absorbs-salted-seed")
	verifReach("end")
}
