package tls

import (
	"fmt"
	"reflect"
	"unsafe"
)

// verifFill(name, p, n): p points to a value; every scalar reachable through
// struct fields, arrays and slices becomes an arbitrary input named by its
// path; every slice and string gets exactly n elements (n == 0 leaves slices
// nil); pointers, maps, funcs, interfaces and channels are left untouched.
// The engine intercepts this call; this is the native (replay) body.
func verifFill(name string, p any, n int) {
	v := reflect.ValueOf(p)
	if v.Kind() != reflect.Pointer || v.IsNil() {
		panic("verifFill: need a non-nil pointer")
	}
	verifFillValue(name, v.Elem(), n)
}

func verifSettable(v reflect.Value) reflect.Value {
	if v.CanSet() {
		return v
	}
	return reflect.NewAt(v.Type(), unsafe.Pointer(v.UnsafeAddr())).Elem()
}

func verifFillValue(path string, v reflect.Value, n int) {
	v = verifSettable(v)
	switch v.Kind() {
	case reflect.Bool:
		v.SetBool(verifNS.next(path) != 0)
	case reflect.Int, reflect.Int8, reflect.Int16, reflect.Int32, reflect.Int64:
		v.SetInt(int64(verifNS.next(path)))
	case reflect.Uint, reflect.Uint8, reflect.Uint16, reflect.Uint32, reflect.Uint64, reflect.Uintptr:
		v.SetUint(verifNS.next(path))
	case reflect.String:
		b := make([]byte, n)
		for i := range b {
			b[i] = byte(verifNS.next(fmt.Sprintf("%s[%d]", path, i)))
		}
		v.SetString(string(b))
	case reflect.Slice:
		if n == 0 {
			return
		}
		s := reflect.MakeSlice(v.Type(), n, n)
		for i := 0; i < n; i++ {
			verifFillValue(fmt.Sprintf("%s[%d]", path, i), s.Index(i), n)
		}
		v.Set(s)
	case reflect.Array:
		for i := 0; i < v.Len(); i++ {
			verifFillValue(fmt.Sprintf("%s[%d]", path, i), v.Index(i), n)
		}
	case reflect.Struct:
		for i := 0; i < v.NumField(); i++ {
			verifFillValue(path+"."+v.Type().Field(i).Name, v.Field(i), n)
		}
	}
}

// verifDeepEq(a, b): structural equality of two values of the same type where
// nil and empty slices are equal, pointers are followed, funcs compare by
// nil-ness only. skip lists field names to ignore (comma separated).
func verifDeepEq(a, b any, skip string) bool {
	return verifDeepEqValue(reflect.ValueOf(a), reflect.ValueOf(b), ","+skip+",", 0)
}

func verifDeepEqValue(a, b reflect.Value, skip string, depth int) bool {
	if depth > 20 {
		return true
	}
	if a.IsValid() != b.IsValid() {
		return false
	}
	if !a.IsValid() {
		return true
	}
	if a.Type() != b.Type() {
		return false
	}
	switch a.Kind() {
	case reflect.Bool:
		return a.Bool() == b.Bool()
	case reflect.Int, reflect.Int8, reflect.Int16, reflect.Int32, reflect.Int64:
		return a.Int() == b.Int()
	case reflect.Uint, reflect.Uint8, reflect.Uint16, reflect.Uint32, reflect.Uint64, reflect.Uintptr:
		return a.Uint() == b.Uint()
	case reflect.Float32, reflect.Float64:
		return a.Float() == b.Float()
	case reflect.String:
		return a.String() == b.String()
	case reflect.Slice:
		if a.Len() != b.Len() {
			return false
		}
		for i := 0; i < a.Len(); i++ {
			if !verifDeepEqValue(a.Index(i), b.Index(i), skip, depth+1) {
				return false
			}
		}
		return true
	case reflect.Array:
		for i := 0; i < a.Len(); i++ {
			if !verifDeepEqValue(a.Index(i), b.Index(i), skip, depth+1) {
				return false
			}
		}
		return true
	case reflect.Struct:
		for i := 0; i < a.NumField(); i++ {
			if containsField(skip, a.Type().Field(i).Name) {
				continue
			}
			if !verifDeepEqValue(a.Field(i), b.Field(i), skip, depth+1) {
				return false
			}
		}
		return true
	case reflect.Pointer, reflect.Interface:
		if a.IsNil() || b.IsNil() {
			return a.IsNil() == b.IsNil()
		}
		return verifDeepEqValue(a.Elem(), b.Elem(), skip, depth+1)
	case reflect.Func, reflect.Map, reflect.Chan, reflect.UnsafePointer:
		return a.IsNil() == b.IsNil()
	}
	return true
}

func containsField(skip, name string) bool {
	needle := "," + name + ","
	for i := 0; i+len(needle) <= len(skip); i++ {
		if skip[i:i+len(needle)] == needle {
			return true
		}
	}
	return false
}
