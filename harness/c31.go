package tls

//verif:harness C31 client_hello_views unwind=400
//verif:expect end
//verif:doc PubClientHelloMsg -> internal -> public and internal -> public -> internal preserve every field (all fields are enumerated from the struct types by verifFill/verifDeepEq, so a new field is covered automatically); every scalar symbolic, every slice/string of length n for n in 0..2. Fields without a counterpart (pskBinders, extensions on the internal side; the cached pointer) are the only ones excluded.
func zzC31ClientHelloViews() {
	n := verifChoice("n", 3)
	var p1 PubClientHelloMsg
	verifFill("pub", &p1, n)
	p2 := p1.getPrivatePtr().getPublicPtr()
	verifAssert(verifDeepEq(p1, *p2, "cachedPrivateHello"), "public-internal-public-lossless")
	var c1 clientHelloMsg
	verifFill("priv", &c1, n)
	c2 := c1.getPublicPtr().getPrivatePtr()
	verifAssert(verifDeepEq(c1, *c2, "extensions"), "internal-public-internal-lossless")
	verifReach("end")
}

//verif:harness C31 server_hello_views unwind=400
//verif:expect end
//verif:doc PubServerHelloMsg <-> serverHelloMsg round trips preserve every field that has a counterpart (supportedPoints, encryptedClientHello, serverNameAck have none on the public side).
func zzC31ServerHelloViews() {
	n := verifChoice("n", 3)
	var p1 PubServerHelloMsg
	verifFill("pub", &p1, n)
	p2 := p1.getPrivatePtr().getPublicPtr()
	verifAssert(verifDeepEq(p1, *p2, ""), "public-internal-public-lossless")
	var s1 serverHelloMsg
	verifFill("priv", &s1, n)
	s2 := s1.getPublicPtr().getPrivatePtr()
	verifAssert(verifDeepEq(s1, *s2, "supportedPoints,encryptedClientHello,serverNameAck"), "internal-public-internal-lossless")
	verifReach("end")
}

//verif:harness C31 small_views unwind=400
//verif:expect end
//verif:doc CertificateRequestMsgTLS13, key shares, PSK identities, ticket keys, cipher-suite views: public -> internal -> public is the identity on every field.
func zzC31SmallViews() {
	n := verifChoice("n", 3)
	var cr CertificateRequestMsgTLS13
	verifFill("cr", &cr, n)
	cr2 := cr.toPrivate().toPublic()
	verifAssert(verifDeepEq(cr, *cr2, "Raw"), "certificate-request-lossless")
	var ks []KeyShare
	verifFill("ks", &ks, n)
	verifAssert(verifDeepEq(ks, keyShares(KeyShares(ks).ToPrivate()).ToPublic(), ""), "key-shares-lossless")
	var ps []PskIdentity
	verifFill("psk", &ps, n)
	verifAssert(verifDeepEq(ps, pskIdentities(PskIdentities(ps).ToPrivate()).ToPublic(), ""), "psk-identities-lossless")
	var tk TicketKey
	verifFill("tk", &tk, n)
	verifAssert(verifDeepEq(tk, tk.ToPrivate().ToPublic(), ""), "ticket-key-lossless")
	var tks []TicketKey
	verifFill("tks", &tks, n)
	verifAssert(verifDeepEq(tks, ticketKeys(TicketKeys(tks).ToPrivate()).ToPublic(), ""), "ticket-keys-lossless")
	var cs PubCipherSuite
	verifFill("cs", &cs, n)
	cs2 := cs.getPrivatePtr()
	verifAssert(cs2.id == cs.Id && cs2.keyLen == cs.KeyLen && cs2.macLen == cs.MacLen && cs2.ivLen == cs.IvLen && cs2.flags == cs.Flags, "cipher-suite-view-lossless")
	var c13 PubCipherSuiteTLS13
	verifFill("c13", &c13, n)
	verifAssert(verifDeepEq(c13, *c13.toPrivate().toPublic(), ""), "cipher-suite-tls13-view-lossless")
	verifReach("end")
}

//verif:harness C31 hello_bytes_roundtrip unwind=4000 instrs=400000000 paths=20000
//verif:stub (*math/rand.Rand).Shuffle zzStubShuffle
//verif:expect end
//verif:doc For the ClientHello bytes of every predefined parrot (thorough tier; every fifth parrot in the quick tier), all random bytes symbolic: UnmarshalClientHello then Marshal reproduces the bytes exactly; parsing, clearing Raw, marshalling and parsing again yields the same field values.
func zzC31HelloBytesRoundtrip() {
	p := zzChooseParrotSample()
	cfg := zzConfig("example.com")
	cfg.OmitEmptyPsk = true
	uc, _, err := zzBuild(p.id, cfg)
	if err != nil {
		verifReach("end")
		return
	}
	raw := append([]byte{}, uc.HandshakeState.Hello.Raw...)
	pub := UnmarshalClientHello(raw)
	verifAssertClass(pub != nil, "valid-hello-unmarshals", p.name)
	if pub == nil {
		verifReach("end")
		return
	}
	out, merr := pub.Marshal()
	verifAssertClass(merr == nil && zzBytesEq(out, raw), "unmarshal-marshal-identity", p.name)
	m := &clientHelloMsg{}
	verifAssertClass(m.unmarshal(raw), "internal-unmarshal", p.name)
	m.original = nil
	b2, err2 := m.marshal()
	verifAssertClass(err2 == nil, "remarshal-succeeds", p.name)
	if err2 == nil {
		m2 := &clientHelloMsg{}
		verifAssertClass(m2.unmarshal(b2), "remarshalled-bytes-parse", p.name)
		verifAssertClass(verifDeepEq(*m, *m2, "original,extensions"), "reparse-same-fields", p.name)
	}
	verifReach("end")
}

//verif:harness C31 presence_of_empty_extensions_survives_views unwind=4000 instrs=400000000 paths=2000
//verif:expect end
//verif:doc A valid ClientHello carrying extensions whose PRESENCE matters although their body is empty or minimal - quic_transport_parameters (empty), session_ticket (empty), signed_certificate_timestamp, extended_master_secret, early_data, status_request - chosen one at a time next to the usual ones: parsing through the public view (UnmarshalClientHello), clearing Raw, and marshalling again yields a hello in which the reference parser finds the same set of extension code points with the same bodies (no extension is lost or gained because an empty value turned into "absent" on the way through the views).
func zzC31PresenceOfEmptyExtensionsSurvivesViews() {
	extra := [][]byte{zzTLV(57, nil), zzTLV(35, nil), zzTLV(18, nil), zzTLV(23, nil), zzTLV(42, nil), zzTLV(5, []byte{1, 0, 0, 0, 0})}
	labels := []string{"quic_transport_parameters", "session_ticket", "sct", "extended_master_secret", "early_data", "status_request"}
	k := verifChoice("extension", len(extra))
	raw := zzCaptureHello("capture.example", zzTLV(10, zzVec16([]byte{0, 29})), zzTLV(13, zzVec16([]byte{4, 3})), zzTLV(43, zzVec8([]byte{3, 4})),
		zzTLV(51, zzVec16(zzCat([]byte{0, 29}, zzVec16(make([]byte, 32))))), extra[k])
	h1, why := zzRefParseClientHello(raw)
	if why != "" {
		verifFail("input-is-valid", why)
		return
	}
	pub := UnmarshalClientHello(raw)
	verifAssertClass(pub != nil, "valid-hello-unmarshals", labels[k])
	if pub == nil {
		return
	}
	pub.Raw = nil
	out, merr := pub.Marshal()
	verifAssertClass(merr == nil, "marshal-after-clearing-raw", labels[k])
	if merr != nil {
		return
	}
	h2, why2 := zzRefParseClientHello(out)
	verifAssertClass(why2 == "", "remarshalled-hello-parses-strictly", labels[k]+":"+why2)
	if why2 != "" {
		return
	}
	for _, e := range h1.exts {
		b, has := h2.ext(e.typ)
		verifAssertClass(has && zzBytesEq(b, e.body), "extension-kept-through-the-views", labels[k])
	}
	verifAssertClass(len(h2.exts) == len(h1.exts), "no-extension-gained", labels[k])
	verifReach("end")
}
