package tls

// C02 beyond the predefined parrots: custom specs assembled from the library's
// extension types, randomized specs, and specs that cannot be encoded.

func zzBaseCustomSpec(extra ...TLSExtension) ClientHelloSpec {
	exts := []TLSExtension{
		&SNIExtension{},
		&SupportedCurvesExtension{Curves: []CurveID{GREASE_PLACEHOLDER, X25519, CurveP256}},
		&SupportedPointsExtension{SupportedPoints: []byte{0}},
		&SignatureAlgorithmsExtension{SupportedSignatureAlgorithms: []SignatureScheme{ECDSAWithP256AndSHA256, PSSWithSHA256}},
		&KeyShareExtension{KeyShares: []KeyShare{{Group: X25519}}},
		&SupportedVersionsExtension{Versions: []uint16{GREASE_PLACEHOLDER, VersionTLS13, VersionTLS12}},
		&PSKKeyExchangeModesExtension{Modes: []uint8{pskModeDHE}},
	}
	exts = append(exts, extra...)
	return ClientHelloSpec{TLSVersMin: VersionTLS12, TLSVersMax: VersionTLS13,
		CipherSuites:       []uint16{GREASE_PLACEHOLDER, TLS_AES_128_GCM_SHA256, TLS_ECDHE_RSA_WITH_AES_128_GCM_SHA256},
		CompressionMethods: []uint8{0}, Extensions: exts}
}

// zzExtraExtension: one further extension of a library type (each type at most
// once in the spec), with symbolic field values inside the RFC limits.
func zzExtraExtensions() []TLSExtension {
	small := func(name string, max int) []byte { return verifBytes(name, 1+verifChoice(name+"-len", max)) }
	switch verifChoice("extra-extension", 24) {
	case 0:
		return nil
	case 1:
		return []TLSExtension{&StatusRequestExtension{}}
	case 2:
		return []TLSExtension{&ALPNExtension{AlpnProtocols: []string{string(small("alpn-a", 3)), string(small("alpn-b", 2))}}}
	case 3:
		return []TLSExtension{&ALPNExtension{AlpnProtocols: []string{"h2"}}, &ApplicationSettingsExtension{SupportedProtocols: []string{string(small("alps", 3))}}}
	case 4:
		return []TLSExtension{&ALPNExtension{AlpnProtocols: []string{"h2"}}, &ApplicationSettingsExtensionNew{SupportedProtocols: []string{string(small("alps", 3))}}}
	case 5:
		return []TLSExtension{&SCTExtension{}, &ExtendedMasterSecretExtension{}}
	case 6:
		return []TLSExtension{&SessionTicketExtension{}}
	case 7:
		return []TLSExtension{&RenegotiationInfoExtension{Renegotiation: RenegotiateOnceAsClient}}
	case 8:
		return []TLSExtension{&UtlsCompressCertExtension{Algorithms: []CertCompressionAlgo{CertCompressionAlgo(verifU16("cc-a")), CertCompressionAlgo(verifU16("cc-b"))}}}
	case 9:
		return []TLSExtension{&FakeRecordSizeLimitExtension{Limit: verifU16("record-size-limit")}}
	case 10:
		return []TLSExtension{&FakeTokenBindingExtension{MajorVersion: verifU8("tb-major"), MinorVersion: verifU8("tb-minor"), KeyParameters: small("tb-params", 3)}}
	case 11:
		return []TLSExtension{&FakeDelegatedCredentialsExtension{SupportedSignatureAlgorithms: []SignatureScheme{SignatureScheme(verifU16("dc-sig"))}}}
	case 12:
		return []TLSExtension{&SignatureAlgorithmsCertExtension{SupportedSignatureAlgorithms: []SignatureScheme{SignatureScheme(verifU16("sac-a")), SignatureScheme(verifU16("sac-b"))}}}
	case 13:
		return []TLSExtension{&NPNExtension{}}
	case 14:
		return []TLSExtension{&FakeChannelIDExtension{OldExtensionID: verifBool("channel-id-old")}}
	case 15:
		return []TLSExtension{&CookieExtension{Cookie: small("cookie", 3)}}
	case 16:
		id := verifU16("generic-id")
		verifAssume(id >= 0xf000 && id != 0xff01 && id != 0xfe0d)
		var data []byte
		if n := verifChoice("generic-len", 4); n > 0 {
			data = verifBytes("generic-data", n)
		}
		return []TLSExtension{&GenericExtension{Id: id, Data: data}}
	case 17:
		return []TLSExtension{&UtlsGREASEExtension{}, &UtlsGREASEExtension{}}
	case 18:
		return []TLSExtension{&UtlsPaddingExtension{GetPaddingLen: BoringPaddingStyle}}
	case 19:
		return []TLSExtension{BoringGREASEECH()}
	case 20:
		return []TLSExtension{&StatusRequestV2Extension{}}
	case 21:
		return []TLSExtension{&FakePreSharedKeyExtension{Identities: []PskIdentity{{Label: small("psk-id", 3), ObfuscatedTicketAge: verifU32("psk-age")}}, Binders: [][]byte{verifBytes("psk-binder", 32)}}}
	case 22:
		return []TLSExtension{&UtlsPreSharedKeyExtension{}}
	case 23:
		return []TLSExtension{&QUICTransportParametersExtension{TransportParameters: TransportParameters{InitialMaxData(verifU64("tp-max-data") & (1<<62 - 1)), &GREASETransportParameter{Length: 2}}}}
	}
	return nil
}

//verif:harness C02 custom_spec_valid_or_refused unwind=4000 instrs=600000000 paths=60000 wall=900
//verif:expect sent refused
//verif:doc A custom spec: a fixed TLS 1.2-1.3 base (SNI, groups with GREASE, point formats, signature algorithms, one X25519 key share, supported_versions with GREASE, PSK modes) plus ONE further group of extensions drawn from 23 cases that together cover every exported extension type of the library, with symbolic field values of small stated lengths inside the RFC limits, x Config.ServerName shapes (DNS name, empty, IPv4; thorough: all seven) x NextProtos none/two: ApplyPreset + BuildHandshakeState either return an error, or Hello.Raw passes the strict ClientHello grammar and every per-extension body grammar.
func zzC02CustomSpecValidOrRefused() {
	spec := zzBaseCustomSpec(zzExtraExtensions()...)
	nn := 3
	if verifThorough() {
		nn = len(zzNameShapes)
	}
	cfg := zzConfig(zzNameShapes[verifChoice("name", nn)])
	cfg.OmitEmptyPsk = verifBool("omit-empty-psk")
	if verifBool("next-protos") {
		cfg.NextProtos = []string{"h2", "http/1.1"}
	}
	uc := UClient(&zzRecConn{}, cfg, HelloCustom)
	if err := uc.ApplyPreset(&spec); err != nil {
		verifReach("refused")
		return
	}
	if err := uc.BuildHandshakeState(); err != nil {
		verifReach("refused")
		return
	}
	verifReach("sent")
	zzCheckHelloSyntax(uc.HandshakeState.Hello.Raw, "custom-spec")
}

//verif:harness C02 randomized_spec_hello_valid unwind=4000 instrs=600000000 paths=400000 wall=1500
//verif:stub utls.newPRNGWithSeed zzStubNewPRNGWithSeed
//verif:stub utls.newPRNGWithSaltedSeed zzStubNewPRNGWithSaltedSeed
//verif:stub (*utls.prng).FlipWeightedCoin zzStubFlipWeightedCoin
//verif:stub (*utls.prng).Intn zzStubPrngIntn
//verif:stub (*utls.prng).Perm zzStubPrngPerm
//verif:stub (*math/rand.Rand).Shuffle zzStubShuffleIdentity
//verif:expect sent
//verif:assume the seeded PRNG stream is arbitrary (every coin an SMT variable), permutations are the identity (C09's stubs)
//verif:doc The three randomized ClientHelloIDs with a symbolic seed, Config.NextProtos nil / empty / {h2} and the default weights, every structural coin arbitrary; the eight coins that only add an independent extension or signature algorithm are tied to one bit (thorough: two bits): UClient + BuildHandshakeState succeed and Hello.Raw passes the strict ClientHello grammar and every per-extension body grammar.
func zzC02RandomizedSpecHelloValid() {
	zzPrngs, zzPrngStreams = nil, nil
	var seed PRNGSeed
	copy(seed[:], verifBytes("seed", 32))
	w := DefaultWeights
	other := zzW("other-weights", false)
	other2 := other
	if verifThorough() {
		// thorough: the eight independent add-on coins form two tied groups instead of one
		other2 = zzW("other-weights-2", false)
	}
	w.SigAndHashAlgos_Append_ECDSAWithSHA1 = other
	w.SigAndHashAlgos_Append_ECDSAWithP521AndSHA512 = other
	w.SigAndHashAlgos_Append_PSSWithSHA384_PSSWithSHA512 = other
	w.CurveIDs_Append_CurveP521 = other2
	w.Extensions_Append_Status = other2
	w.Extensions_Append_SCT = other2
	w.Extensions_Append_Reneg = other2
	w.Extensions_Append_EMS = other2
	w.CipherSuites_Remove_RandomCiphers = 0
	clients := []string{helloRandomized, helloRandomizedALPN, helloRandomizedNoALPN}
	id := ClientHelloID{Client: clients[verifChoice("variant", 3)], Version: helloAutoVers, Seed: &seed, Weights: &w}
	cfg := zzConfig("example.com")
	switch verifChoice("caller-nextprotos", 3) {
	case 1:
		cfg.NextProtos = []string{} // empty but not nil
	case 2:
		cfg.NextProtos = []string{"h2"}
	}
	uc := UClient(&zzRecConn{}, cfg, id)
	err := uc.BuildHandshakeState()
	verifAssert(err == nil, "randomized-hello-builds")
	if err == nil {
		verifReach("sent")
		zzCheckHelloSyntax(uc.HandshakeState.Hello.Raw, "randomized")
	}
}

//verif:harness C02 unencodable_spec_is_refused unwind=200000 instrs=900000000 paths=100 wall=900
//verif:expect end
//verif:doc Specs whose encoding does not fit the ClientHello's length fields - two GenericExtensions of 33 000 zero bytes each (extensions block > 65 535), one GenericExtension of 66 000 bytes, a 40 000-entry cipher-suite list, a 300-byte session id, 300 compression methods: BuildHandshakeState must return an error, or else what it emits must still pass the strict grammar; silently truncated length fields are a violation.
func zzC02UnencodableSpecIsRefused() {
	spec := zzBaseCustomSpec()
	which := verifChoice("oversize", 5)
	switch which {
	case 0:
		spec.Extensions = append(spec.Extensions, &GenericExtension{Id: 0xf001, Data: make([]byte, 33000)}, &GenericExtension{Id: 0xf002, Data: make([]byte, 33000)})
	case 1:
		spec.Extensions = append(spec.Extensions, &GenericExtension{Id: 0xf001, Data: make([]byte, 66000)})
	case 2:
		spec.CipherSuites = make([]uint16, 40000)
		for i := range spec.CipherSuites {
			spec.CipherSuites[i] = TLS_AES_128_GCM_SHA256
		}
	case 4:
		spec.CompressionMethods = make([]uint8, 300)
	}
	cfg := zzConfig("example.com")
	cfg.Rand = zzCountingReader{}
	uc := UClient(&zzRecConn{}, cfg, HelloCustom)
	if err := uc.ApplyPreset(&spec); err != nil {
		verifReach("end")
		return
	}
	if which == 3 {
		uc.HandshakeState.Hello.SessionId = make([]byte, 300)
	}
	if err := uc.BuildHandshakeState(); err != nil {
		verifReach("end")
		return
	}
	_, why := zzRefParseClientHello(uc.HandshakeState.Hello.Raw)
	verifAssertClass(why == "", "emitted-hello-has-consistent-length-fields", []string{"extensions-block-over-65535", "single-extension-over-65535", "cipher-suites-over-65534-bytes", "session-id-over-255", "compression-methods-over-255"}[which])
	verifReach("end")
}
