package tls

import (
	"crypto/x509"
	"errors"
	"time"

	"github.com/refraction-networking/utls/internal/tls13"
)

var zzCachedSession *ClientSessionState
var zzCacheKeys []string
var zzCachePuts []string

type zzScriptedCache struct{}

func (zzScriptedCache) Get(k string) (*ClientSessionState, bool) {
	zzCacheKeys = append(zzCacheKeys, k)
	return zzCachedSession, zzCachedSession != nil
}
func (zzScriptedCache) Put(k string, s *ClientSessionState) { zzCachePuts = append(zzCachePuts, k) }

var zzHostnameChecks []string
var zzHostnameOK bool

func zzStubVerifyHostname(c *x509.Certificate, h string) error {
	zzHostnameChecks = append(zzHostnameChecks, h)
	if zzHostnameOK {
		return nil
	}
	return errors.New("x509: modelled host name mismatch")
}

// (time.Time).Sub involves 64-bit multiplication by 10^9 with overflow checks,
// which no installed solver decides; the ticket age it feeds is per-connection
// material, so the difference is an arbitrary duration here.
func zzStubTimeSub(t time.Time, u time.Time) time.Duration { return time.Duration(verifI64("ticket-age")) }

func zzStubResumptionBinderKey(s *tls13.EarlySecret) []byte { return make([]byte, 32) }

//verif:harness C19 load_session_offers_only_resumable unwind=400 paths=200000 wall=900
//verif:stub (*crypto/x509.Certificate).VerifyHostname zzStubVerifyHostname
//verif:stub (time.Time).Sub zzStubTimeSub
//verif:stub (*github.com/refraction-networking/utls/internal/tls13.EarlySecret).ResumptionBinderKey zzStubResumptionBinderKey
//verif:expect offered12 offered13 declined
//verif:assume the session cache returns an ARBITRARY session for the key it is asked for; x509 host-name matching is a stub with an arbitrary outcome; the early secret is opaque
//verif:doc loadSession (as called by uTLS's uLoadSession) with an arbitrary cached session (version, suite, EMS flag, creation/expiry times, certificate expiry symbolic), arbitrary current time, a hello offering two arbitrary versions and three arbitrary suites with an arbitrary EMS flag: the cache is asked only for the configured server name; a session is offered only if its version is advertised, the cached certificate is not expired and matches the verification name (ServerName; InsecureServerNameToVerify when set; no name check when that is "*"), for TLS <= 1.2 its suite is offered (ticket copied verbatim) and it is not an extended-master-secret session offered without the extension, for TLS 1.3 the ticket is not expired and a suite with the same hash is offered (identity = ticket).
func zzC19LoadSessionOffersOnlyResumable() { zzLoadSessionBody() }

func zzLoadSessionBody() {
	zzCacheKeys, zzCachePuts, zzHostnameChecks = nil, nil, nil
	zzHostnameOK = verifBool("hostname-matches")
	now := int64(verifU32("now"))
	notAfter := int64(verifU32("cert-not-after"))
	cfg := &Config{ServerName: "a.example", ClientSessionCache: zzScriptedCache{}, Time: func() time.Time { return time.Unix(now, 0) }}
	cfg.InsecureSkipTimeVerify = verifBool("skip-time")
	// the name the cached leaf must match: ServerName, or the override, or none for "*"
	wantName := "a.example"
	switch verifChoice("name-override", 3) {
	case 1:
		cfg.InsecureServerNameToVerify = "*"
		wantName = ""
	case 2:
		cfg.InsecureServerNameToVerify = "real.example"
		wantName = "real.example"
	}
	c := &Conn{config: cfg, isClient: true}
	uc := &UConn{Conn: c}
	sc := newSessionController(uc)
	sc.loadSessionTracker = UtlsAboutToCall
	c.utls.sessionController = sc
	ticket := verifBytes("ticket", 2)
	ss := &SessionState{version: verifU16("sess-version"), cipherSuite: verifU16("sess-suite"), extMasterSecret: verifBool("sess-ems"),
		useBy: uint64(verifU32("use-by")), createdAt: uint64(verifU32("created-at")), ageAdd: verifU32("age-add"), secret: []byte{1}, ticket: ticket,
		peerCertificates: []*x509.Certificate{{NotAfter: time.Unix(notAfter, 0)}}}
	if verifBool("has-verified-chains") {
		ss.verifiedChains = [][]*x509.Certificate{{ss.peerCertificates[0]}}
	}
	zzCachedSession = &ClientSessionState{session: ss}
	hello := &clientHelloMsg{supportedVersions: []uint16{verifU16("offer-version"), verifU16("offer-version")},
		cipherSuites: []uint16{verifU16("offer-suite"), verifU16("offer-suite"), verifU16("offer-suite")}, extendedMasterSecret: verifBool("hello-ems")}
	session, _, _, err := c.loadSession(hello)
	verifAssert(err == nil, "no-error")
	for _, k := range zzCacheKeys {
		verifAssert(k == "a.example", "cache-asked-only-for-the-configured-server-name")
	}
	if session == nil {
		verifReach("declined")
		verifAssert(len(hello.sessionTicket) == 0 && len(hello.pskIdentities) == 0, "nothing-offered-when-declined")
		return
	}
	verifAssert(zzContainsU16(hello.supportedVersions, session.version), "session-version-is-advertised")
	if !cfg.InsecureSkipTimeVerify {
		verifAssert(now <= notAfter, "cached-certificate-not-expired")
	}
	verifAssert(len(session.verifiedChains) > 0, "only-verified-sessions-when-verifying")
	if wantName == "" {
		verifAssert(len(zzHostnameChecks) == 0, "no-name-check-when-override-is-star")
	} else {
		verifAssert(len(zzHostnameChecks) == 1 && zzHostnameChecks[0] == wantName && zzHostnameOK, "cached-leaf-matches-verification-name")
	}
	if session.version != VersionTLS13 {
		verifReach("offered12")
		verifAssert(zzContainsU16(hello.cipherSuites, session.cipherSuite) && cipherSuiteByID(session.cipherSuite) != nil, "tls12-suite-still-offered")
		verifAssert(zzBytesEq(hello.sessionTicket, ticket), "ticket-offered-verbatim")
		verifAssertClass(!(session.extMasterSecret && !hello.extendedMasterSecret), "ems-session-needs-ems-extension", "ems-session-offered-without-extension")
	} else {
		verifReach("offered13")
		verifAssert(now <= int64(session.useBy), "ticket-not-expired")
		ps := cipherSuiteTLS13ByID(session.cipherSuite)
		verifAssert(ps != nil, "tls13-suite-known")
		sameHash := false
		for _, o := range hello.cipherSuites {
			for _, id := range []uint16{TLS_AES_128_GCM_SHA256, TLS_AES_256_GCM_SHA384, TLS_CHACHA20_POLY1305_SHA256} {
				if os := cipherSuiteTLS13ByID(id); ps != nil && os.hash == ps.hash {
					sameHash = verifOr(sameHash, o == id)
				}
			}
		}
		verifAssert(sameHash, "a-suite-with-the-session-hash-is-offered")
		verifAssert(len(hello.pskIdentities) == 1 && zzBytesEq(hello.pskIdentities[0].label, ticket), "identity-is-the-ticket")
		verifAssert(len(hello.pskModes) == 0 || hello.pskModes[0] == pskModeDHE, "psk-dhe-mode")
	}
}

var zzBinderOut []byte
var zzBinderTranscript []byte

func zzStubFinishedHash(c *cipherSuiteTLS13, baseKey []byte, transcript interface {
	Write([]byte) (int, error)
	Sum([]byte) []byte
	Reset()
	Size() int
	BlockSize() int
}) []byte {
	if u, ok := transcript.(*zzUFHash); ok {
		zzBinderTranscript = append([]byte{}, u.written...)
	}
	zzBinderOut = verifUFBytes("binder", 32, append(append([]byte{}, baseKey[:1]...), transcript.Sum(nil)[:4]...))
	return zzBinderOut
}

//verif:harness C19 psk_binder_patch_keeps_length unwind=4000 instrs=600000000 paths=40000 wall=900
//verif:stub (*math/rand.Rand).Shuffle zzStubShuffleIdentity
//verif:stub (crypto.Hash).New zzStubHashNew
//verif:stub (*utls.cipherSuiteTLS13).finishedHash zzStubFinishedHash
//verif:expect end
//verif:assume transcript hash and the Finished MAC are uninterpreted functions
//verif:doc For every parrot with a pre_shared_key extension: a UtlsPreSharedKeyExtension initialised with a TLS 1.3 session, a symbolic 1..3-byte identity and a symbolic binder key is set through SetPskExtension; BuildHandshakeState then marshals, computes the binder over the hello without binders and patches it in: the hello length is unchanged by the patch, pre_shared_key is the last extension, the strict grammar holds and the binder on the wire is the computed one.
func zzC19PskBinderPatchKeepsLength() {
	var ids []ClientHelloID
	for _, p := range zzPredefinedParrots() {
		if zzSpecHasPSK(p.id) {
			ids = append(ids, p.id)
		}
	}
	id := ids[verifChoice("parrot", len(ids))]
	cfg := zzConfig("example.com")
	cfg.ClientSessionCache = zzEmptyCache{}
	uc := UClient(&zzRecConn{}, cfg, id)
	label := verifBytes("identity", 1+verifChoice("idlen", 3))
	psk := &UtlsPreSharedKeyExtension{}
	sess := &SessionState{version: VersionTLS13, cipherSuite: TLS_AES_128_GCM_SHA256, secret: []byte{9}, ticket: label}
	psk.InitializeByUtls(sess, []byte{1, 2}, verifBytes("binder-key", 2), []PskIdentity{{Label: label, ObfuscatedTicketAge: verifU32("age")}})
	verifAssert(uc.SetPskExtension(psk) == nil, "set-psk-extension")
	zzBinderOut = nil
	err := uc.BuildHandshakeState()
	verifAssert(err == nil, "build-succeeds")
	if err == nil {
		raw := uc.HandshakeState.Hello.Raw
		h, ok := zzCheckHelloSyntax(raw, "psk-parrot")
		if ok {
			verifAssert(len(h.exts) > 0 && h.exts[len(h.exts)-1].typ == 41, "pre-shared-key-is-last")
			b, _ := h.ext(41)
			want := zzCat(zzVec16(zzCat(zzVec16(label), []byte{byte(psk.Identities[0].ObfuscatedTicketAge >> 24), byte(psk.Identities[0].ObfuscatedTicketAge >> 16), byte(psk.Identities[0].ObfuscatedTicketAge >> 8), byte(psk.Identities[0].ObfuscatedTicketAge)})), zzVec16(zzVec8(zzBinderOut)))
			verifAssert(zzBinderOut != nil && zzBytesEq(b, want), "wire-carries-identity-and-computed-binder")
			verifAssert(len(raw) == 4+int(raw[1])<<16+int(raw[2])<<8+int(raw[3]), "length-field-consistent-after-patch")
		}
	}
	verifReach("end")
}

//verif:harness C19 psk_resumption_survives_hrr unwind=4000 instrs=600000000 paths=40000 wall=900
//verif:stub (*math/rand.Rand).Shuffle zzStubShuffleIdentity
//verif:stub (crypto.Hash).New zzStubHashNew
//verif:stub (*utls.cipherSuiteTLS13).finishedHash zzStubFinishedHash
//verif:stub (*utls.Conn).readHandshake zzStubReadHandshake
//verif:stub (*utls.Conn).sendAlert zzStubSendAlert
//verif:stub (time.Time).Sub zzStubTimeSub
//verif:expect end
//verif:doc A PSK parrot offering a TLS 1.3 session receives a legal HelloRetryRequest (P-256, which it listed without a share): processHelloRetryRequest must proceed (re-computing the binder) rather than abort.
func zzC19PskResumptionSurvivesHRR() {
	cfg := zzConfig("example.com")
	cfg.ClientSessionCache = zzEmptyCache{}
	uc := UClient(&zzRecConn{}, cfg, HelloChrome_100_PSK)
	label := verifBytes("identity", 2)
	psk := &UtlsPreSharedKeyExtension{}
	sess := &SessionState{version: VersionTLS13, cipherSuite: TLS_AES_128_GCM_SHA256, secret: []byte{9}, ticket: label}
	psk.InitializeByUtls(sess, []byte{1, 2}, []byte{3, 4}, []PskIdentity{{Label: label, ObfuscatedTicketAge: 7}})
	verifAssert(uc.SetPskExtension(psk) == nil, "set-psk-extension")
	if uc.BuildHandshakeState() != nil {
		verifReach("end")
		return
	}
	hs := uc.HandshakeState.toPrivate13()
	hs.hello = uc.HandshakeState.Hello.getPrivatePtr()
	hs.transcript = &zzUFHash{}
	hs.suite = cipherSuiteTLS13ByID(TLS_AES_128_GCM_SHA256)
	hs.session = sess
	hs.binderKey = []byte{3, 4}
	hs.serverHello = &serverHelloMsg{vers: VersionTLS12, random: helloRetryRequestRandom, sessionId: hs.hello.sessionId, cipherSuite: TLS_AES_128_GCM_SHA256, supportedVersion: VersionTLS13, selectedGroup: CurveP256}
	zzInbox = []any{&serverHelloMsg{vers: VersionTLS12, random: make([]byte, 32), sessionId: hs.hello.sessionId, cipherSuite: TLS_AES_128_GCM_SHA256, supportedVersion: VersionTLS13, serverShare: keyShare{group: CurveP256, data: []byte{4}}}}
	err := hs.processHelloRetryRequest()
	verifReach("end")
	verifAssertClass(err == nil, "resumption-survives-hello-retry-request", "utls-does-not-reprocess-psk-after-hrr")
}

//verif:harness C19 wire_never_offers_ems_session_without_extension unwind=4000 instrs=600000000 paths=40000 wall=900
//verif:stub (*math/rand.Rand).Shuffle zzStubShuffleIdentity
//verif:stub (*crypto/x509.Certificate).VerifyHostname zzStubVerifyHostname
//verif:stub (time.Time).Sub zzStubTimeSub
//verif:expect offered declined
//verif:assume x509 host-name matching succeeds (stub); the cached session is valid in every other respect
//verif:doc End to end through the real uTLS build pipeline (HelloCustom + ApplyPreset + BuildHandshakeState): a spec derived from a sampled parrot with a session_ticket extension, with its extended_master_secret extension kept or removed (choice), and a cache holding a valid TLS 1.2 session whose extended-master-secret flag is symbolic: whenever the ClientHello on the wire carries the cached ticket and the session used EMS, the wire hello has an extended_master_secret extension (code point 23).
func zzC19WireNeverOffersEmsSessionWithoutExtension() {
	p := zzChooseParrotSample()
	spec, _ := zzRefSpec(p.id)
	hasTicket, hasPSK := false, false
	var exts []TLSExtension
	drop := verifBool("drop-ems-extension")
	for _, e := range spec.Extensions {
		switch e.(type) {
		case *SessionTicketExtension:
			hasTicket = true
		case PreSharedKeyExtension:
			hasPSK = true
		case *ExtendedMasterSecretExtension:
			if drop {
				continue
			}
		}
		exts = append(exts, e)
	}
	if !hasTicket || hasPSK {
		verifReach("offered")
		verifReach("declined")
		return
	}
	spec.Extensions = exts
	var suite uint16
	for _, s := range spec.CipherSuites {
		if cs := cipherSuiteByID(s); cs != nil && !zzIsTLS13Suite(s) {
			suite = s
			break
		}
	}
	zzCacheKeys, zzCachePuts, zzHostnameChecks = nil, nil, nil
	zzHostnameOK = true
	cfg := zzConfig("example.com")
	cfg.ClientSessionCache = zzScriptedCache{}
	now := zzFixedTime()
	cert := &x509.Certificate{NotAfter: now.Add(time.Hour)}
	ticket := []byte{0xde, 0xad, 0xbe, 0xef}
	ems := verifBool("session-ems")
	ss := &SessionState{version: VersionTLS12, cipherSuite: suite, extMasterSecret: ems, createdAt: uint64(now.Unix()), secret: []byte{1}, ticket: ticket,
		peerCertificates: []*x509.Certificate{cert}, verifiedChains: [][]*x509.Certificate{{cert}}}
	zzCachedSession = &ClientSessionState{session: ss}
	uc := UClient(&zzRecConn{}, cfg, HelloCustom)
	if err := uc.ApplyPreset(&spec); err != nil {
		verifFail("apply-preset-fails", p.name)
		return
	}
	if err := uc.BuildHandshakeState(); err != nil {
		verifFail("build-fails", p.name)
		return
	}
	h, why := zzRefParseClientHello(uc.HandshakeState.Hello.Raw)
	verifAssertClass(why == "", "hello-parses-strictly", p.name+":"+why)
	if why != "" {
		return
	}
	tb, hasT := h.ext(35)
	_, hasEMS := h.ext(23)
	if hasT && len(tb) > 0 {
		verifReach("offered")
		verifAssertClass(zzBytesEq(tb, ticket), "ticket-offered-verbatim", p.name)
		verifAssertClass(!ems || hasEMS, "ems-session-needs-ems-extension", "on-the-wire")
	} else {
		verifReach("declined")
	}
}
