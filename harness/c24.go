package tls

import (
	"bytes"

	"github.com/refraction-networking/utls/internal/quicvarint"
	"github.com/refraction-networking/utls/internal/quicvarint/protocol"
)

// zzRefVarintDecode is an independent RFC 9000 §16 decoder: it returns the
// value, the number of bytes consumed and whether the encoding is minimal.
func zzRefVarintDecode(b []byte) (v uint64, n int, minimal bool, ok bool) {
	if len(b) == 0 {
		return 0, 0, false, false
	}
	n = 1 << (b[0] >> 6)
	if len(b) < n {
		return 0, 0, false, false
	}
	v = uint64(b[0] & 0x3f)
	for i := 1; i < n; i++ {
		v = v<<8 | uint64(b[i])
	}
	switch n {
	case 1:
		minimal = true
	case 2:
		minimal = v > 63
	case 4:
		minimal = v > 16383
	case 8:
		minimal = v > 1073741823
	}
	return v, n, minimal, true
}

//verif:harness C24 varint_roundtrip unwind=12
//verif:expect end
//verif:doc Append/Len/Read round trip and minimality for every x < 2^62 (x is one symbolic 64-bit variable).
func zzC24VarintRoundtrip() {
	x := verifU64("x")
	verifAssume(x < 1<<62)
	b := quicvarint.Append(nil, x)
	verifAssert(len(b) == int(quicvarint.Len(x)), "len-matches-Len")
	y, err := quicvarint.Read(bytes.NewReader(b))
	verifAssert(err == nil, "read-ok")
	verifAssert(y == x, "decodes-to-x")
	rv, rn, rmin, rok := zzRefVarintDecode(b)
	verifAssert(rok && rn == len(b), "ref-consumes-all")
	verifAssert(rv == x, "ref-decodes-to-x")
	verifAssert(rmin, "minimal-encoding")
	verifReach("end")
}

//verif:harness C24 varint_refuses_large unwind=12
//verif:expect end
//verif:doc Append and Len panic for every x >= 2^62 instead of truncating.
func zzC24VarintRefusesLarge() {
	x := verifU64("x")
	verifAssume(x >= 1<<62)
	verifAssert(verifPanics(func() { quicvarint.Append(nil, x) }), "append-panics")
	verifAssert(verifPanics(func() { quicvarint.Len(x) }), "len-panics")
	verifReach("end")
}

//verif:harness C24 varint_withlen unwind=12
//verif:expect end
//verif:doc AppendWithLen(x, w) for every x and every w: emits exactly w bytes decoding to x, or panics when x does not fit / w is not 1,2,4,8.
func zzC24VarintWithLen() {
	x := verifU64("x")
	w := verifU64("w")
	verifAssume(w <= 9)
	var out []byte
	p := verifPanics(func() { out = quicvarint.AppendWithLen(nil, x, protocol.ByteCount(w)) })
	validW := w == 1 || w == 2 || w == 4 || w == 8
	var need uint64 = 9
	switch {
	case x <= 63:
		need = 1
	case x <= 16383:
		need = 2
	case x <= 1073741823:
		need = 4
	case x < 1<<62:
		need = 8
	}
	if !validW || need > w {
		verifAssert(p, "refused-by-panic")
	} else {
		verifAssert(!p, "no-panic-when-fits")
		verifAssert(uint64(len(out)) == w, "exact-width")
		rv, rn, _, rok := zzRefVarintDecode(out)
		verifAssert(rok && uint64(rn) == w, "ref-width")
		verifAssert(rv == x, "ref-decodes-to-x")
		y, err := quicvarint.Read(bytes.NewReader(out))
		verifAssert(err == nil && y == x, "read-decodes-to-x")
	}
	verifReach("end")
}

//verif:harness C24 varint_read_vs_ref unwind=12
//verif:expect end
//verif:doc quicvarint.Read on arbitrary input of every length 0..9 agrees with the reference decoder (value, error on short input).
func zzC24VarintReadVsRef() {
	n := verifChoice("n", 10)
	b := verifBytes("b", n)
	y, err := quicvarint.Read(bytes.NewReader(b))
	rv, _, _, rok := zzRefVarintDecode(b)
	verifAssert((err == nil) == rok, "error-iff-short")
	if rok {
		verifAssert(y == rv, "same-value")
	}
	verifReach("end")
}

// zzRefParseTransportParams parses (varint id, varint length, value)* with the
// independent decoder.
type zzRefTP struct {
	id  uint64
	val []byte
}

func zzRefParseTransportParams(b []byte) (out []zzRefTP, ok bool) {
	for len(b) > 0 {
		id, n, _, k := zzRefVarintDecode(b)
		if !k {
			return nil, false
		}
		b = b[n:]
		l, n2, _, k2 := zzRefVarintDecode(b)
		if !k2 {
			return nil, false
		}
		b = b[n2:]
		if uint64(len(b)) < l {
			return nil, false
		}
		out = append(out, zzRefTP{id, b[:l]})
		b = b[l:]
	}
	return out, true
}

func zzMakeTP(i int) (TransportParameter, uint64, []byte) {
	kind := verifChoice("kind", 9)
	switch kind {
	case 0:
		v := verifU64("v")
		verifAssume(v < 1<<62)
		return MaxIdleTimeout(v), 0x1, quicvarintRef(v)
	case 1:
		v := verifU64("v")
		verifAssume(v < 1<<62)
		return InitialMaxStreamsUni(v), 0x9, quicvarintRef(v)
	case 2:
		return &DisableActiveMigration{}, 0xc, []byte{}
	case 3:
		n := verifChoice("cidlen", 4)
		b := verifBytes("cid", n)
		return InitialSourceConnectionID(b), 0xf, b
	case 4:
		id := verifU64("fakeid")
		verifAssume(id != 0 && id < 1<<62)
		n := verifChoice("fakelen", 4)
		b := verifBytes("fakeval", n)
		return &FakeQUICTransportParameter{Id: id, Val: b}, id, b
	case 5:
		n := verifChoice("padlen", 4)
		b := verifBytes("pad", n)
		return PaddingTransportParameter(b), 0x15, b
	case 6:
		id := verifU64("greaseid")
		n := verifChoice("greaselen", 3)
		b := verifBytes("greaseval", n+1)
		verifAssume(id >= 27 && (id-27)%31 == 0 && id < 1<<62)
		return &GREASETransportParameter{IdOverride: id, ValueOverride: b}, id, b
	case 7:
		cv := verifU32("chosen")
		av := verifU32("avail")
		verifAssume(av != VERSION_GREASE)
		leg := verifBool("legacy")
		id := uint64(0x11)
		if leg {
			id = 0xff73db
		}
		return &VersionInformation{ChoosenVersion: cv, AvailableVersions: []uint32{av}, LegacyID: leg}, id,
			[]byte{byte(cv >> 24), byte(cv >> 16), byte(cv >> 8), byte(cv), byte(av >> 24), byte(av >> 16), byte(av >> 8), byte(av)}
	default:
		return &GREASEQUICBit{}, 0x2ab2, []byte{}
	}
}

// quicvarintRef is an independent minimal varint encoder (RFC 9000 §16).
func quicvarintRef(v uint64) []byte {
	switch {
	case v <= 63:
		return []byte{byte(v)}
	case v <= 16383:
		return []byte{0x40 | byte(v>>8), byte(v)}
	case v <= 1073741823:
		return []byte{0x80 | byte(v>>24), byte(v >> 16), byte(v >> 8), byte(v)}
	default:
		return []byte{0xc0 | byte(v>>56), byte(v >> 48), byte(v >> 40), byte(v >> 32), byte(v >> 24), byte(v >> 16), byte(v >> 8), byte(v)}
	}
}

//verif:harness C24 transport_params_marshal1 unwind=24 paths=40000
//verif:expect end
//verif:doc TransportParameters.Marshal of one parameter drawn from 9 built-in kinds (symbolic ids / values, value bodies <= 3 bytes, varint values < 2^62) parses with the reference decoder to the same (id, value) list.
func zzC24TransportParamsMarshal1() { zzC24TPBody(1) }

//verif:harness C24 transport_params_marshal2 tier=thorough unwind=24 paths=100000 wall=1800
//verif:expect end
//verif:doc Same for lists of two parameters (every ordered pair of the 9 kinds).
func zzC24TransportParamsMarshal2() { zzC24TPBody(2) }

func zzC24TPBody(n int) {
	var tps TransportParameters
	var ids []uint64
	var vals [][]byte
	for i := 0; i < n; i++ {
		tp, id, val := zzMakeTP(i)
		tps = append(tps, tp)
		ids = append(ids, id)
		vals = append(vals, val)
	}
	b := tps.Marshal()
	got, ok := zzRefParseTransportParams(b)
	verifAssert(ok, "parses")
	verifAssert(len(got) == n, "same-count")
	if ok && len(got) == n {
		for i := range got {
			verifAssert(got[i].id == ids[i], "same-id")
			verifAssert(bytes.Equal(got[i].val, vals[i]), "same-value")
		}
	}
	verifReach("end")
}

var zzC24LongLens = []int{62, 63, 64, 255, 256, 16382, 16383, 16384, 65534, 65535, 65536, 65537, 70000, 131072}

//verif:harness C24 transport_params_marshal_long unwind=40 paths=4000
//verif:expect end
//verif:doc TransportParameters.Marshal of [padding or fake parameter with a long value, GREASE-QUIC-bit]: value length case-split over 14 lengths around the varint and 8/16-bit boundaries (62..64, 255/256, 16382..16384, 65534..65537, 70000, 131072), symbolic fake id, first/last value bytes symbolic and the rest zero; the body parses with the reference decoder to the same two (id, value) entries, i.e. the length field carries the whole value length and the following entry stays framed.
func zzC24TransportParamsMarshalLong() {
	n := zzC24LongLens[verifChoice("lenclass", len(zzC24LongLens))]
	val := make([]byte, n)
	val[0] = verifU8("first")
	val[n-1] = verifU8("last")
	var tp TransportParameter
	var id uint64
	if verifBool("fake") {
		id = verifU64("fakeid")
		verifAssume(id != 0 && id < 1<<62)
		tp = &FakeQUICTransportParameter{Id: id, Val: val}
	} else {
		id = 0x15
		tp = PaddingTransportParameter(val)
	}
	want := append([]byte{}, val...)
	b := TransportParameters{tp, &GREASEQUICBit{}}.Marshal()
	got, ok := zzRefParseTransportParams(b)
	verifAssert(ok, "long-parses")
	verifAssert(len(got) == 2, "long-same-count")
	if ok && len(got) == 2 {
		verifAssert(got[0].id == id, "long-same-id")
		verifAssert(len(got[0].val) == n, "long-same-length")
		verifAssert(bytes.Equal(got[0].val, want), "long-same-value")
		verifAssert(got[1].id == 0x2ab2 && len(got[1].val) == 0, "long-next-entry-framed")
	}
	verifReach("end")
}
