package tls

import (
	"bytes"

	"github.com/refraction-networking/utls/internal/quicvarint"
	"github.com/refraction-networking/utls/internal/quicvarint/protocol"
)

// zzRefVarintDecode is an independent RFC 9000 §16 decoder: it returns the
// value, the number of bytes consumed and whether the encoding is minimal.
func zzRefVarintDecode(b []byte) (v uint64, n int, minimal bool, ok bool) {
	if len(b) == 0 {
		return 0, 0, false, false
	}
	n = 1 << (b[0] >> 6)
	if len(b) < n {
		return 0, 0, false, false
	}
	v = uint64(b[0] & 0x3f)
	for i := 1; i < n; i++ {
		v = v<<8 | uint64(b[i])
	}
	switch n {
	case 1:
		minimal = true
	case 2:
		minimal = v > 63
	case 4:
		minimal = v > 16383
	case 8:
		minimal = v > 1073741823
	}
	return v, n, minimal, true
}

//verif:harness C24 varint_roundtrip unwind=12
//verif:expect end
//verif:doc Append/Len/Read round trip and minimality for every x < 2^62 (x is one symbolic 64-bit variable).
func zzC24VarintRoundtrip() {
	x := verifU64("x")
	verifAssume(x < 1<<62)
	b := quicvarint.Append(nil, x)
	verifAssert(len(b) == int(quicvarint.Len(x)), "len-matches-Len")
	y, err := quicvarint.Read(bytes.NewReader(b))
	verifAssert(err == nil, "read-ok")
	verifAssert(y == x, "decodes-to-x")
	rv, rn, rmin, rok := zzRefVarintDecode(b)
	verifAssert(rok && rn == len(b), "ref-consumes-all")
	verifAssert(rv == x, "ref-decodes-to-x")
	verifAssert(rmin, "minimal-encoding")
	verifReach("end")
}

//verif:harness C24 varint_refuses_large unwind=12
//verif:expect end
//verif:doc Append and Len panic for every x >= 2^62 instead of truncating.
func zzC24VarintRefusesLarge() {
	x := verifU64("x")
	verifAssume(x >= 1<<62)
	verifAssert(verifPanics(func() { quicvarint.Append(nil, x) }), "append-panics")
	verifAssert(verifPanics(func() { quicvarint.Len(x) }), "len-panics")
	verifReach("end")
}

//verif:harness C24 varint_withlen unwind=12
//verif:expect end
//verif:doc AppendWithLen(x, w) for every x and every w: emits exactly w bytes decoding to x, or panics when x does not fit / w is not 1,2,4,8.
func zzC24VarintWithLen() {
	x := verifU64("x")
	w := verifU64("w")
	verifAssume(w <= 9)
	var out []byte
	p := verifPanics(func() { out = quicvarint.AppendWithLen(nil, x, protocol.ByteCount(w)) })
	validW := w == 1 || w == 2 || w == 4 || w == 8
	var need uint64 = 9
	switch {
	case x <= 63:
		need = 1
	case x <= 16383:
		need = 2
	case x <= 1073741823:
		need = 4
	case x < 1<<62:
		need = 8
	}
	if !validW || need > w {
		verifAssert(p, "refused-by-panic")
	} else {
		verifAssert(!p, "no-panic-when-fits")
		verifAssert(uint64(len(out)) == w, "exact-width")
		rv, rn, _, rok := zzRefVarintDecode(out)
		verifAssert(rok && uint64(rn) == w, "ref-width")
		verifAssert(rv == x, "ref-decodes-to-x")
		y, err := quicvarint.Read(bytes.NewReader(out))
		verifAssert(err == nil && y == x, "read-decodes-to-x")
	}
	verifReach("end")
}

//verif:harness C24 varint_read_vs_ref unwind=12
//verif:expect end
//verif:doc quicvarint.Read on arbitrary input of every length 0..9 agrees with the reference decoder (value, error on short input).
func zzC24VarintReadVsRef() {
	n := verifChoice("n", 10)
	b := verifBytes("b", n)
	y, err := quicvarint.Read(bytes.NewReader(b))
	rv, _, _, rok := zzRefVarintDecode(b)
	verifAssert((err == nil) == rok, "error-iff-short")
	if rok {
		verifAssert(y == rv, "same-value")
	}
	verifReach("end")
}
