package tls

// zzRefIsGREASE16: RFC 8701 — 0x0A0A, 0x1A1A, ..., 0xFAFA.
func zzRefIsGREASE16(v uint16) bool {
	return verifAnd(v&0x0f0f == 0x0a0a, v>>8 == v&0xff)
}

//verif:harness C04 boring_grease_value unwind=8
//verif:expect end
//verif:doc GetBoringGREASEValue is a reserved 0x?A?A value for all 2^96 seeds and every index.
func zzC04BoringGreaseValue() {
	var seed [ssl_grease_last_index]uint16
	for i := range seed {
		seed[i] = verifU16("seed")
	}
	idx := verifChoice("idx", int(ssl_grease_last_index))
	v := GetBoringGREASEValue(seed, idx)
	verifAssert(zzRefIsGREASE16(v), "is-reserved-grease")
	verifAssert(isGREASEUint16(v), "recognised-by-isGREASEUint16")
	verifReach("end")
}

//verif:harness C04 is_grease_predicate unwind=8
//verif:expect end
//verif:doc isGREASEUint16 agrees with the RFC 8701 predicate on all 2^16 values; unGREASEUint16 maps exactly those to the placeholder.
func zzC04IsGreasePredicate() {
	v := verifU16("v")
	verifAssert(isGREASEUint16(v) == zzRefIsGREASE16(v), "predicate-matches-rfc8701")
	u := unGREASEUint16(v)
	if zzRefIsGREASE16(v) {
		verifAssert(u == GREASE_PLACEHOLDER, "ungrease-placeholder")
	} else {
		verifAssert(u == v, "ungrease-identity")
	}
	verifReach("end")
}

//verif:harness C04 quic_grease_id unwind=8
//verif:expect end
//verif:assume crypto/rand.Int(r, max) returns an arbitrary value in [0, max) (its documented contract)
//verif:doc GREASETransportParameter.GetGREASEID is 31*N+27, below 2^62 and accepted by IsGREASEID for every RNG result; ID() keeps a valid override and replaces an invalid one.
func zzC04QuicGreaseID() {
	var g GREASETransportParameter
	id := g.GetGREASEID()
	verifAssert(id >= 27 && (id-27)%31 == 0, "is-31n-plus-27")
	verifAssert(id < 1<<62, "fits-varint")
	verifAssert(g.IsGREASEID(id), "accepted-by-IsGREASEID")
	verifReach("end")
}

//verif:harness C04 quic_grease_id_override unwind=8
//verif:expect end
//verif:doc ID() returns the override iff it is a GREASE id, otherwise a generated GREASE id; IsGREASEID agrees with the 31N+27 rule for every 64-bit id.
func zzC04QuicGreaseIDOverride() {
	o := verifU64("override")
	g := &GREASETransportParameter{IdOverride: o}
	ref := o >= 27 && (o-27)%31 == 0
	verifAssert(g.IsGREASEID(o) == ref, "IsGREASEID-matches-rule")
	id := g.ID()
	if ref {
		verifAssert(id == o, "valid-override-kept")
	} else {
		verifAssert(id >= 27 && (id-27)%31 == 0 && id < 1<<62, "invalid-override-replaced-by-grease")
	}
	verifAssert(g.ID() == id, "id-stable")
	verifReach("end")
}

//verif:harness C04 quic_grease_version unwind=8
//verif:expect end
//verif:assume crypto/rand.Int(r, max) returns an arbitrary value in [0, max)
//verif:doc VersionInformation.GetGREASEVersion matches 0x?a?a?a?a for every RNG result, and Value() emits such a version for each VERSION_GREASE placeholder.
func zzC04QuicGreaseVersion() {
	v := &VersionInformation{}
	g := v.GetGREASEVersion()
	verifAssertClass(g&0x0f0f0f0f == 0x0a0a0a0a, "grease-version-reserved", "GetGREASEVersion")
	verifReach("end")
}

//verif:harness C04 quic_grease_version_value unwind=12
//verif:expect end
//verif:doc Value() of a VersionInformation with one VERSION_GREASE placeholder emits chosen version then a reserved 0x?a?a?a?a version.
func zzC04QuicGreaseVersionValue() {
	cv := verifU32("chosen")
	v := &VersionInformation{ChoosenVersion: cv, AvailableVersions: []uint32{VERSION_GREASE, VERSION_1}}
	b := v.Value()
	verifAssert(len(b) == 12, "three-versions")
	if len(b) == 12 {
		verifAssert(b[0] == byte(cv>>24) && b[1] == byte(cv>>16) && b[2] == byte(cv>>8) && b[3] == byte(cv), "chosen-first")
		verifAssertClass(b[4]&0x0f == 0x0a && b[5]&0x0f == 0x0a && b[6]&0x0f == 0x0a && b[7]&0x0f == 0x0a, "grease-version-reserved", "Value")
		verifAssert(b[8] == 0 && b[9] == 0 && b[10] == 0 && b[11] == 1, "version1-last")
	}
	verifReach("end")
}

//verif:harness C04 custom_keyshare_grease unwind=400 instrs=200000000 paths=4000 wall=600
//verif:expect end
//verif:doc Custom spec (HelloCustom + ApplyPreset + BuildHandshakeState, all random bytes symbolic) with GREASE placeholders in cipher suites, supported_groups, supported_versions, two GREASE extensions, and a GREASE key share whose key_exchange has 0..4 arbitrary bytes (the shape a fingerprinted hello produces): on the wire the key_share GREASE group is reserved and equals the supported_groups GREASE group, the GREASE cipher/version values are reserved, and the two GREASE extension code points are reserved and differ.
func zzC04CustomKeyShareGrease() {
	n := verifChoice("grease-share-len", 5)
	data := verifBytes("grease-share", n)
	spec := ClientHelloSpec{
		CipherSuites:       []uint16{GREASE_PLACEHOLDER, TLS_AES_128_GCM_SHA256, TLS_ECDHE_RSA_WITH_AES_128_GCM_SHA256},
		CompressionMethods: []uint8{0},
		Extensions: []TLSExtension{
			&UtlsGREASEExtension{},
			&SNIExtension{},
			&SupportedCurvesExtension{Curves: []CurveID{GREASE_PLACEHOLDER, X25519, CurveP256}},
			&SupportedPointsExtension{SupportedPoints: []byte{0}},
			&SignatureAlgorithmsExtension{SupportedSignatureAlgorithms: []SignatureScheme{ECDSAWithP256AndSHA256, PSSWithSHA256}},
			&KeyShareExtension{KeyShares: []KeyShare{{Group: GREASE_PLACEHOLDER, Data: data}, {Group: X25519}}},
			&SupportedVersionsExtension{Versions: []uint16{GREASE_PLACEHOLDER, VersionTLS13, VersionTLS12}},
			&UtlsGREASEExtension{},
		},
	}
	cfg := zzConfig("example.com")
	uc := UClient(&zzRecConn{}, cfg, HelloCustom)
	if err := uc.ApplyPreset(&spec); err != nil {
		verifFail("apply-preset", "custom-keyshare-grease")
		return
	}
	if err := uc.BuildHandshakeState(); err != nil {
		verifFail("build", "custom-keyshare-grease")
		return
	}
	h, why := zzRefParseClientHello(uc.HandshakeState.Hello.Raw)
	verifAssertClass(why == "", "hello-parses-strictly", "custom-keyshare-grease:"+why)
	if why != "" {
		return
	}
	var sg, ks uint16
	if b, ok := h.ext(10); ok {
		vs, ok := zzRefU16ListBody(b, 2)
		verifAssert(ok && len(vs) == 3, "custom-supported-groups-shape")
		if ok && len(vs) == 3 {
			sg = vs[0]
		}
	} else {
		verifFail("custom-supported-groups-present", "")
	}
	if b, ok := h.ext(51); ok {
		gs, lens, _, ok := zzKeyShareEntries(b)
		verifAssert(ok && len(gs) == 2, "custom-key-share-shape")
		if ok && len(gs) == 2 {
			ks = gs[0]
			verifAssert(gs[1] == uint16(X25519) && lens[1] == 32, "custom-real-share-kept")
		}
	} else {
		verifFail("custom-key-share-present", "")
	}
	verifAssert(zzRefIsGREASE16(sg), "custom-grease-group-reserved")
	verifAssert(zzRefIsGREASE16(ks), "custom-key-share-grease-reserved")
	verifAssert(sg == ks, "custom-key-share-grease-equals-supported-groups-grease")
	verifAssertPossible(ks != 0x0a0a, "custom-key-share-grease-varies", "")
	if len(h.suites) == 3 {
		verifAssert(zzRefIsGREASE16(h.suites[0]), "custom-grease-cipher-reserved")
	}
	if b, ok := h.ext(43); ok {
		if vs, ok := zzRefU16ListBody(b, 1); ok && len(vs) == 3 {
			verifAssert(zzRefIsGREASE16(vs[0]), "custom-grease-version-reserved")
		}
	}
	if len(h.exts) >= 2 {
		first, last := h.exts[0].typ, h.exts[len(h.exts)-1].typ
		verifAssert(zzRefIsGREASE16(first) && zzRefIsGREASE16(last), "custom-grease-extensions-reserved")
		verifAssert(first != last, "custom-grease-extensions-differ")
	}
	verifReach("end")
}
