package tls

// zzRefIsGREASE16: RFC 8701 — 0x0A0A, 0x1A1A, ..., 0xFAFA.
func zzRefIsGREASE16(v uint16) bool {
	return verifAnd(v&0x0f0f == 0x0a0a, v>>8 == v&0xff)
}

//verif:harness C04 boring_grease_value unwind=8
//verif:expect end
//verif:doc GetBoringGREASEValue is a reserved 0x?A?A value for all 2^96 seeds and every index.
func zzC04BoringGreaseValue() {
	var seed [ssl_grease_last_index]uint16
	for i := range seed {
		seed[i] = verifU16("seed")
	}
	idx := verifChoice("idx", int(ssl_grease_last_index))
	v := GetBoringGREASEValue(seed, idx)
	verifAssert(zzRefIsGREASE16(v), "is-reserved-grease")
	verifAssert(isGREASEUint16(v), "recognised-by-isGREASEUint16")
	verifReach("end")
}

//verif:harness C04 is_grease_predicate unwind=8
//verif:expect end
//verif:doc isGREASEUint16 agrees with the RFC 8701 predicate on all 2^16 values; unGREASEUint16 maps exactly those to the placeholder.
func zzC04IsGreasePredicate() {
	v := verifU16("v")
	verifAssert(isGREASEUint16(v) == zzRefIsGREASE16(v), "predicate-matches-rfc8701")
	u := unGREASEUint16(v)
	if zzRefIsGREASE16(v) {
		verifAssert(u == GREASE_PLACEHOLDER, "ungrease-placeholder")
	} else {
		verifAssert(u == v, "ungrease-identity")
	}
	verifReach("end")
}

//verif:harness C04 quic_grease_id unwind=8
//verif:expect end
//verif:assume crypto/rand.Int(r, max) returns an arbitrary value in [0, max) (its documented contract)
//verif:doc GREASETransportParameter.GetGREASEID is 31*N+27, below 2^62 and accepted by IsGREASEID for every RNG result; ID() keeps a valid override and replaces an invalid one.
func zzC04QuicGreaseID() {
	var g GREASETransportParameter
	id := g.GetGREASEID()
	verifAssert(id >= 27 && (id-27)%31 == 0, "is-31n-plus-27")
	verifAssert(id < 1<<62, "fits-varint")
	verifAssert(g.IsGREASEID(id), "accepted-by-IsGREASEID")
	verifReach("end")
}

//verif:harness C04 quic_grease_id_override unwind=8
//verif:expect end
//verif:doc ID() returns the override iff it is a GREASE id, otherwise a generated GREASE id; IsGREASEID agrees with the 31N+27 rule for every 64-bit id.
func zzC04QuicGreaseIDOverride() {
	o := verifU64("override")
	g := &GREASETransportParameter{IdOverride: o}
	ref := o >= 27 && (o-27)%31 == 0
	verifAssert(g.IsGREASEID(o) == ref, "IsGREASEID-matches-rule")
	id := g.ID()
	if ref {
		verifAssert(id == o, "valid-override-kept")
	} else {
		verifAssert(id >= 27 && (id-27)%31 == 0 && id < 1<<62, "invalid-override-replaced-by-grease")
	}
	verifAssert(g.ID() == id, "id-stable")
	verifReach("end")
}

//verif:harness C04 quic_grease_version unwind=8
//verif:expect end
//verif:assume crypto/rand.Int(r, max) returns an arbitrary value in [0, max)
//verif:doc VersionInformation.GetGREASEVersion matches 0x?a?a?a?a for every RNG result, and Value() emits such a version for each VERSION_GREASE placeholder.
func zzC04QuicGreaseVersion() {
	v := &VersionInformation{}
	g := v.GetGREASEVersion()
	verifAssertClass(g&0x0f0f0f0f == 0x0a0a0a0a, "grease-version-reserved", "GetGREASEVersion")
	verifReach("end")
}

//verif:harness C04 quic_grease_version_value unwind=12
//verif:expect end
//verif:doc Value() of a VersionInformation with one VERSION_GREASE placeholder emits chosen version then a reserved 0x?a?a?a?a version.
func zzC04QuicGreaseVersionValue() {
	cv := verifU32("chosen")
	v := &VersionInformation{ChoosenVersion: cv, AvailableVersions: []uint32{VERSION_GREASE, VERSION_1}}
	b := v.Value()
	verifAssert(len(b) == 12, "three-versions")
	if len(b) == 12 {
		verifAssert(b[0] == byte(cv>>24) && b[1] == byte(cv>>16) && b[2] == byte(cv>>8) && b[3] == byte(cv), "chosen-first")
		verifAssertClass(b[4]&0x0f == 0x0a && b[5]&0x0f == 0x0a && b[6]&0x0f == 0x0a && b[7]&0x0f == 0x0a, "grease-version-reserved", "Value")
		verifAssert(b[8] == 0 && b[9] == 0 && b[10] == 0 && b[11] == 1, "version1-last")
	}
	verifReach("end")
}
