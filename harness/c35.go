package tls

import (
	"crypto/cipher"
	"hash"
)

// ---- opaque AES-CTR / HMAC / SHA-512 models (uninterpreted functions) ----

type zzBlock struct{ key []byte }

func (b *zzBlock) BlockSize() int          { return 16 }
func (b *zzBlock) Encrypt(dst, src []byte) { copy(dst, verifUFBytes("aes-enc", 16, zzCat(b.key, src))) }
func (b *zzBlock) Decrypt(dst, src []byte) { copy(dst, verifUFBytes("aes-dec", 16, zzCat(b.key, src))) }

type zzCTR struct{ key, iv []byte }

func (s *zzCTR) XORKeyStream(dst, src []byte) {
	ks := verifUFBytes("ctr-keystream", len(src), zzCat(s.key, s.iv))
	for i := range src {
		dst[i] = src[i] ^ ks[i]
	}
}

type zzHmacCall struct{ key, in, out []byte }

var zzHmacCalls []zzHmacCall

type zzHmac struct {
	key     []byte
	written []byte
}

func (h *zzHmac) Write(p []byte) (int, error) { h.written = append(h.written, p...); return len(p), nil }
func (h *zzHmac) Sum(b []byte) []byte {
	out := verifUFBytes("hmac-sha256", 32, zzCat(h.key, h.written))
	zzHmacCalls = append(zzHmacCalls, zzHmacCall{h.key, append([]byte{}, h.written...), out})
	return append(b, out...)
}
func (h *zzHmac) Reset()         { h.written = nil }
func (h *zzHmac) Size() int      { return 32 }
func (h *zzHmac) BlockSize() int { return 64 }

func zzStubAesNewCipher(key []byte) (cipher.Block, error)          { return &zzBlock{append([]byte{}, key...)}, nil }
func zzStubNewCTR(block cipher.Block, iv []byte) cipher.Stream     { return &zzCTR{block.(*zzBlock).key, append([]byte{}, iv...)} }
func zzStubHmacNew(h func() hash.Hash, key []byte) hash.Hash       { return &zzHmac{key: append([]byte{}, key...)} }
func zzStubSum512(data []byte) [64]byte {
	var out [64]byte
	copy(out[:], verifUFBytes("sha512", 64, data))
	return out
}

// zzAssumeHmacInjective: instance-level axiom for the recorded HMAC
// applications under the same key: different messages have different tags
// (what unforgeability gives with overwhelming probability).
func zzAssumeHmacInjective() {
	for i := range zzHmacCalls {
		for j := 0; j < i; j++ {
			a, b := zzHmacCalls[i], zzHmacCalls[j]
			if len(a.in) != len(b.in) || len(a.key) != len(b.key) {
				continue
			}
			same := verifAnd(zzBytesEq(a.in, b.in), zzBytesEq(a.key, b.key))
			verifAssume(verifOr(same, !zzBytesEq(a.out, b.out)))
		}
	}
}

func zzTicketKey(name string) ticketKey {
	var k ticketKey
	copy(k.aesKey[:], verifBytes(name+"-aes", 16))
	copy(k.hmacKey[:], verifBytes(name+"-hmac", 16))
	return k
}

//verif:harness C35 ticket_roundtrip_and_tamper unwind=400 paths=100000
//verif:stub crypto/aes.NewCipher zzStubAesNewCipher
//verif:stub crypto/cipher.NewCTR zzStubNewCTR
//verif:stub crypto/hmac.New zzStubHmacNew
//verif:expect roundtrip tampered
//verif:assume AES-CTR keystream and HMAC-SHA256 are uninterpreted functions; HMAC is injective on the (key, message) pairs that occur (instance-level axiom standing in for unforgeability)
//verif:doc encryptTicket / decryptTicket with 1..2 symbolic ticket keys, a state of 0..3 (thorough 0..19, crossing an AES block) symbolic bytes and a symbolic IV: decrypt(encrypt(s)) == s under the same keys (also when the sealing key is second in the list); flipping any single byte (symbolic position, symbolic non-zero xor) of IV, ciphertext or MAC, truncating the ticket below IV+MAC size, or sealing under a key that is not configured yields nil.
func zzC35TicketRoundtripAndTamper() {
	zzHmacCalls = nil
	cfg := &Config{Rand: zzRandReader{}}
	k1, k2 := zzTicketKey("k1"), zzTicketKey("k2")
	state := verifBytes("state", verifChoice("statelen", zzTierN(4, 20)))
	enc, err := cfg.encryptTicket(state, []ticketKey{k1})
	verifAssert(err == nil && len(enc) == 16+len(state)+32, "ticket-layout")
	if err != nil {
		return
	}
	switch verifChoice("scenario", 5) {
	case 0:
		verifReach("roundtrip")
		out := cfg.decryptTicket(append([]byte{}, enc...), []ticketKey{k1})
		verifAssert(out != nil && zzBytesEq(out, state), "decrypt-encrypt-identity")
	case 1:
		// key rotation: the sealing key is now the second configured key
		zzAssumeDistinctKeys(k1, k2)
		out := cfg.decryptTicket(append([]byte{}, enc...), []ticketKey{k2, k1})
		zzAssumeHmacInjective()
		verifAssert(out != nil && zzBytesEq(out, state), "older-configured-key-still-decrypts")
		verifReach("roundtrip")
	case 2:
		verifReach("tampered")
		t := append([]byte{}, enc...)
		pos := verifChoice("pos", len(t))
		x := verifU8("xor")
		verifAssume(x != 0)
		t[pos] ^= x
		out := cfg.decryptTicket(t, []ticketKey{k1})
		zzAssumeHmacInjective()
		verifAssert(out == nil, "single-byte-modification-rejected")
	case 3:
		verifReach("tampered")
		// truncation below the minimum ticket size (IV + MAC) is rejected outright;
		// longer truncations move the MAC window onto older bytes, which only an
		// unforgeability argument (not SMT) can exclude: outside the claim
		keep := verifChoice("keep", 48)
		if keep > len(enc) {
			keep = len(enc)
		}
		out := cfg.decryptTicket(append([]byte{}, enc[:keep]...), []ticketKey{k1})
		verifAssert(out == nil, "ticket-shorter-than-iv-plus-mac-rejected")
	case 4:
		verifReach("tampered")
		zzAssumeDistinctKeys(k1, k2)
		out := cfg.decryptTicket(append([]byte{}, enc...), []ticketKey{k2})
		zzAssumeHmacInjective()
		verifAssert(out == nil, "unconfigured-key-rejected")
	}
}

func zzAssumeDistinctKeys(a, b ticketKey) {
	verifAssume(!zzBytesEq(a.hmacKey[:], b.hmacKey[:]))
}

//verif:harness C35 ticket_key_from_bytes unwind=400
//verif:stub crypto/sha512.Sum512 zzStubSum512
//verif:expect end
//verif:doc TicketKeyFromBytes(b) and Config.SetSessionTicketKeys([b]) derive the same AES and HMAC keys for every 32-byte b (SHA-512 uninterpreted): the AES key is hash[16:32], the HMAC key hash[32:48].
func zzC35TicketKeyFromBytes() {
	var b [32]byte
	copy(b[:], verifBytes("b", 32))
	pub := TicketKeyFromBytes(b)
	cfg := &Config{Time: zzFixedTime}
	cfg.SetSessionTicketKeys([][32]byte{b})
	verifAssert(len(cfg.sessionTicketKeys) == 1, "one-key-installed")
	inst := cfg.sessionTicketKeys[0]
	verifAssert(zzBytesEq(pub.AesKey[:], inst.aesKey[:]) && zzBytesEq(pub.HmacKey[:], inst.hmacKey[:]), "same-keys-as-SetSessionTicketKeys")
	h := zzStubSum512(b[:])
	verifAssert(zzBytesEq(pub.AesKey[:], h[16:32]) && zzBytesEq(pub.HmacKey[:], h[32:48]), "keys-are-hash-slices-16-32-and-32-48")
	priv := pub.ToPrivate()
	verifAssert(zzBytesEq(priv.aesKey[:], pub.AesKey[:]) && zzBytesEq(priv.hmacKey[:], pub.HmacKey[:]), "view-conversion")
	verifReach("end")
}

//verif:harness C35 forged_client_session_state unwind=400
//verif:expect end
//verif:doc MakeClientSessionState and the setters store exactly the supplied ticket, version, suite and master secret (all symbolic); SessionState.Bytes / ParseSessionState round-trip for certificate-less states with symbolic version, suite, secret (1..3 bytes), extended-master-secret flag and creation time.
func zzC35ForgedClientSessionState() {
	ticket := verifBytes("ticket", 1+verifChoice("ticketlen", 3))
	ms := verifBytes("ms", 1+verifChoice("mslen", 3))
	vers, suite := verifU16("vers"), verifU16("suite")
	css := MakeClientSessionState(ticket, vers, suite, ms, nil, nil)
	verifAssert(zzBytesEq(css.SessionTicket(), ticket) && css.Vers() == vers && css.CipherSuite() == suite && zzBytesEq(css.MasterSecret(), ms), "constructor-stores-supplied-values")
	css.SetVers(vers + 1)
	css.SetCipherSuite(suite ^ 1)
	verifAssert(css.Vers() == vers+1 && css.CipherSuite() == suite^1, "setters-store-supplied-values")
	ss := &SessionState{version: vers, cipherSuite: suite, secret: ms, isClient: false, extMasterSecret: verifBool("ems"), createdAt: verifU64("created")}
	verifAssume(vers != VersionTLS13)
	b, err := ss.Bytes()
	verifAssert(err == nil, "bytes")
	if err == nil {
		s2, perr := ParseSessionState(b)
		verifAssert(perr == nil && s2 != nil, "parse")
		if perr == nil && s2 != nil {
			verifAssert(s2.version == ss.version && s2.cipherSuite == ss.cipherSuite && zzBytesEq(s2.secret, ss.secret) && s2.extMasterSecret == ss.extMasterSecret && s2.createdAt == ss.createdAt && !s2.isClient, "parse-bytes-identity")
		}
	}
	verifReach("end")
}

//verif:harness C35 ticket_key_rotation unwind=400
//verif:stub crypto/sha512.Sum512 zzStubSum512
//verif:expect end
//verif:doc A sequence of two Config.SetSessionTicketKeys calls with 1..2 and then 1..2 arbitrary 32-byte keys (SHA-512 uninterpreted): after each call the installed key set is exactly the keys TicketKeyFromBytes derives from that call's list, in order — nothing from the previous list survives a rotation (so a ticket sealed under a key that is no longer configured finds no key to open it), and ticketKeys() hands decryptTicket that same set.
func zzC35TicketKeyRotation() {
	cfg := &Config{Time: zzFixedTime}
	for round := 0; round < 2; round++ {
		n := 1 + verifChoice("nkeys", 2)
		keys := make([][32]byte, n)
		for i := range keys {
			copy(keys[i][:], verifBytes("key", 32))
		}
		cfg.SetSessionTicketKeys(keys)
		verifAssert(len(cfg.sessionTicketKeys) == n, "rotation-installs-exactly-the-new-list")
		if len(cfg.sessionTicketKeys) == n {
			for i := range keys {
				want := TicketKeyFromBytes(keys[i])
				got := cfg.sessionTicketKeys[i]
				verifAssert(zzBytesEq(want.AesKey[:], got.aesKey[:]) && zzBytesEq(want.HmacKey[:], got.hmacKey[:]), "rotation-key-derived-from-new-list")
			}
		}
		used := cfg.ticketKeys(nil)
		verifAssert(len(used) == n, "decrypt-key-set-is-the-installed-set")
		if len(used) == n {
			for i := range used {
				verifAssert(used[i] == cfg.sessionTicketKeys[i], "decrypt-key-set-is-the-installed-set")
			}
		}
	}
	verifReach("end")
}
