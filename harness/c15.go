package tls

import (
	"crypto/ecdh"

	"github.com/refraction-networking/utls/internal/hpke"
)

// ---- ECH: HPKE is opaque; Seal's arguments are what the properties are about ----

type zzSealCall struct{ aad, pt, out []byte }

var zzSealCalls []zzSealCall

func zzStubSeal(s *hpke.Sender, aad, pt []byte) ([]byte, error) {
	out := verifBytes("ech-ciphertext", len(pt)+16)
	zzSealCalls = append(zzSealCalls, zzSealCall{append([]byte{}, aad...), append([]byte{}, pt...), out})
	return append([]byte{}, out...), nil
}

// SetupSender: opaque HPKE context; the info string and recipient key it is
// given are recorded (they must be those of the selected config, exactly).
var zzHPKEInfo, zzHPKEPub []byte
var zzHPKESuite [3]uint16

func zzStubSetupSender(kemID, kdfID, aeadID uint16, pub *ecdh.PublicKey, info []byte) ([]byte, *hpke.Sender, error) {
	zzHPKEInfo = append([]byte{}, info...)
	zzHPKEPub = append([]byte{}, pub.Bytes()...)
	zzHPKESuite = [3]uint16{kemID, kdfID, aeadID}
	return verifBytes("hpkeenc", 32), &hpke.Sender{}, nil
}

var zzECHSelectedConfig []byte
var zzECHListShapes bool // explore multi-entry config lists (first harness only)

const zzECHPublic = "public.example"
const zzECHSecret = "hidden.example" // no byte of it has the GREASE form 0x?a

// zzECHSuitesPrefix: cipher suites listed BEFORE the usable (HKDF-SHA256, aead)
// one in the good config: none, or suites the client must skip because it
// implements only one half of them (unknown KDF with a known AEAD and vice versa).
var zzECHSuitesPrefix []byte

func zzECHConfig(id uint8, kem uint16, pkFirst byte, aead uint16, maxName uint8) []byte {
	pk := make([]byte, 32)
	pk[0] = pkFirst
	suites := zzCat(zzU16(1), zzU16(aead))
	if pkFirst == 9 {
		suites = zzCat(zzECHSuitesPrefix, suites)
	}
	body := zzCat([]byte{id}, zzU16(kem), zzVec16(pk), zzVec16(suites), []byte{maxName}, zzVec8([]byte(zzECHPublic)), zzVec16(nil))
	return zzCat(zzU16(0xfe0d), zzVec16(body))
}

// zzECHConfigList: one usable config (X25519 KEM, key byte 9), alone or as the
// first / second entry of a two-entry list whose other entry is a config the
// client must skip (unknown KEM) or a second usable config (then the first wins).
func zzECHConfigList(id uint8, aead uint16, maxName uint8) []byte {
	zzECHSuitesPrefix = nil
	shape := 0
	if zzECHListShapes {
		shape = verifChoice("config-list-shape", 6)
	}
	switch shape {
	case 4: // HKDF-SHA384 (not implemented) with AES-256-GCM, then an unknown AEAD with HKDF-SHA256, listed first
		zzECHSuitesPrefix = zzCat(zzU16(2), zzU16(2), zzU16(1), zzU16(0x7777))
	case 5: // Export-only AEAD listed first
		zzECHSuitesPrefix = zzCat(zzU16(1), zzU16(0xffff))
	}
	good := zzECHConfig(id, 0x0020, 9, aead, maxName)
	zzECHSelectedConfig = good
	switch shape {
	case 1: // usable first, another usable config after it
		return zzVec16(zzCat(good, zzECHConfig(id+1, 0x0020, 7, aead, maxName)))
	case 2: // a config with an unsupported KEM first
		return zzVec16(zzCat(zzECHConfig(id+1, 0x0010, 7, aead, maxName), good))
	case 3: // a config of an unknown version first (skipped)
		return zzVec16(zzCat(zzCat(zzU16(0xfe0a), zzVec16([]byte{1, 2, 3})), good))
	}
	return zzVec16(good)
}

// zzECHIDs: HelloGolang and every predefined parrot whose spec carries an
// encrypted_client_hello extension and no pre_shared_key.
func zzECHIDs() []zzParrot {
	out := []zzParrot{{"HelloGolang", HelloGolang}}
	for _, p := range zzPredefinedParrots() {
		spec, err := zzRefSpec(p.id)
		if err != nil {
			continue
		}
		has, psk := false, false
		for _, e := range spec.Extensions {
			switch e.(type) {
			case EncryptedClientHelloExtension:
				has = true
			case PreSharedKeyExtension:
				psk = true
			}
		}
		if has && !psk {
			out = append(out, p)
		}
	}
	return out
}

type zzSpan struct{ lo, hi int }

// zzHelloRandomSpans: byte ranges of a raw ClientHello holding per-connection
// random material (random, session id, key_share body, ECH body).
func zzHelloRandomSpans(raw []byte) ([]zzSpan, bool) {
	sp, _, ok := zzHelloRandomSpansECH(raw)
	return sp, ok
}

func zzHelloRandomSpansECH(raw []byte) (spans []zzSpan, echBody int, okk bool) {
	echBody = -1
	if len(raw) < 39 {
		return nil, -1, false
	}
	sp := []zzSpan{{6, 38}}
	i := 38
	sid := int(raw[i])
	sp = append(sp, zzSpan{i + 1, i + 1 + sid})
	i += 1 + sid
	if i+2 > len(raw) {
		return nil, -1, false
	}
	i += 2 + (int(raw[i])<<8 | int(raw[i+1]))
	if i+1 > len(raw) {
		return nil, -1, false
	}
	i += 1 + int(raw[i])
	if i+2 > len(raw) {
		return nil, -1, false
	}
	i += 2
	for i+4 <= len(raw) {
		t := int(raw[i])<<8 | int(raw[i+1])
		l := int(raw[i+2])<<8 | int(raw[i+3])
		if t == 51 || t == 0xfe0d {
			sp = append(sp, zzSpan{i + 4, i + 4 + l})
		}
		if t == 0xfe0d {
			echBody = i + 4
		}
		i += 4 + l
	}
	return sp, echBody, i == len(raw)
}

func zzContainsNameOutsideSpans(raw []byte, name string, spans []zzSpan) bool {
	found := false
	for i := 0; i+len(name) <= len(raw); i++ {
		overlap := false
		for _, s := range spans {
			if i < s.hi && i+len(name) > s.lo {
				overlap = true
			}
		}
		if overlap {
			continue
		}
		found = verifOr(found, zzBytesEq(raw[i:i+len(name)], []byte(name)))
	}
	return found
}

func zzKeySharesEq(a, b []keyShare) bool {
	if len(a) != len(b) {
		return false
	}
	ok := true
	for i := range a {
		ok = verifAnd(ok, a[i].group == b[i].group)
		ok = verifAnd(ok, zzBytesEq(a[i].data, b[i].data))
	}
	return ok
}

// zzCheckECHOuter checks one outer ClientHello (raw) against the Seal call that
// produced its payload; returns the decoded inner hello.
func zzCheckECHOuter(raw []byte, call zzSealCall, cfgID uint8, aead uint16, withEnc bool, cls string) *clientHelloMsg {
	h, why := zzRefParseClientHello(raw)
	verifAssertClass(why == "", "outer-hello-parses-strictly", cls+":"+why)
	if why != "" {
		return nil
	}
	sni, hasSNI := h.ext(0)
	verifAssertClass(hasSNI && zzBytesEq(sni, zzVec16(zzCat([]byte{0}, zzVec16([]byte(zzECHPublic))))), "outer-sni-is-the-public-name", cls)
	spans, off, ok := zzHelloRandomSpansECH(raw)
	verifAssertClass(ok, "outer-hello-walkable", cls)
	verifAssertClass(!zzContainsNameOutsideSpans(raw, zzECHSecret, spans), "server-name-absent-from-plaintext", cls)
	eb, hasECH := h.ext(0xfe0d)
	verifAssertClass(hasECH, "outer-has-ech-extension", cls)
	if !hasECH {
		return nil
	}
	encLen := 0
	if withEnc {
		encLen = 32
	}
	wantLen := 1 + 2 + 2 + 1 + 2 + encLen + 2 + len(call.out)
	verifAssertClass(len(eb) == wantLen, "ech-extension-length", cls)
	if len(eb) != wantLen {
		return nil
	}
	verifAssertClass(eb[0] == 0 && eb[1] == 0 && eb[2] == 1 && eb[3] == byte(aead>>8) && eb[4] == byte(aead) && eb[5] == cfgID, "ech-type-suite-and-config-id", cls)
	verifAssertClass(int(eb[6])<<8|int(eb[7]) == encLen, "ech-enc-length", cls)
	pay := eb[8+encLen+2:]
	verifAssertClass(zzBytesEq(pay, call.out), "ech-payload-is-the-sealed-inner", cls)
	// AAD = outer hello without the 4-byte header, payload zeroed
	verifAssertClass(len(call.aad) == len(raw)-4, "aad-length", cls)
	if len(call.aad) == len(raw)-4 {
		// locate payload in raw: it is the tail of the ECH extension body
		okAAD := off >= 0
		if off >= 0 {
			ps := off + 8 + encLen + 2
			for i := 4; i < len(raw); i++ {
				if i >= ps && i < ps+len(pay) {
					okAAD = verifAnd(okAAD, call.aad[i-4] == 0)
				} else {
					okAAD = verifAnd(okAAD, call.aad[i-4] == raw[i])
				}
			}
		}
		verifAssertClass(okAAD, "aad-is-outer-with-zeroed-payload", cls)
	}
	// what the server decodes
	outer := &clientHelloMsg{}
	if !outer.unmarshal(raw) {
		verifFail("outer-unmarshals", cls)
		return nil
	}
	inner, err := decodeInnerClientHello(outer, call.pt)
	verifAssertClass(err == nil, "server-decodes-inner", cls)
	if err != nil {
		return nil
	}
	verifAssertClass(inner.serverName == zzECHSecret, "inner-names-the-real-server", cls)
	verifAssertClass(zzKeySharesEq(inner.keyShares, outer.keyShares), "inner-key-shares-expand-to-outer", cls)
	verifAssertClass(zzBytesEq(inner.sessionId, outer.sessionId), "inner-session-id-is-outer", cls)
	verifAssertClass(len(inner.supportedCurves) == len(outer.supportedCurves), "inner-groups-expand-to-outer", cls)
	for i := range inner.supportedCurves {
		if i < len(outer.supportedCurves) {
			verifAssertClass(inner.supportedCurves[i] == outer.supportedCurves[i], "inner-groups-expand-to-outer", cls)
		}
	}
	verifAssertClass(len(inner.supportedSignatureAlgorithms) == len(outer.supportedSignatureAlgorithms), "inner-sigalgs-expand-to-outer", cls)
	for i := range inner.supportedSignatureAlgorithms {
		if i < len(outer.supportedSignatureAlgorithms) {
			verifAssertClass(inner.supportedSignatureAlgorithms[i] == outer.supportedSignatureAlgorithms[i], "inner-sigalgs-expand-to-outer", cls)
		}
	}
	verifAssertClass(len(inner.alpnProtocols) == len(outer.alpnProtocols), "inner-alpn-expands-to-outer", cls)
	verifAssertClass(len(inner.keyShares) > 0, "inner-has-key-shares", cls)
	return inner
}

func zzECHSetup() (p zzParrot, cfg *Config, cfgID uint8, aead uint16) {
	ids := zzECHIDs()
	p = ids[verifChoice("ech-client", len(ids))]
	cfgID = verifU8("config-id")
	aead = []uint16{1, 2, 3}[verifChoice("aead", 3)]
	maxName := []uint8{0, 14, 64}[verifChoice("max-name-length", 3)]
	cfg = zzConfig(zzECHSecret)
	cfg.MinVersion = VersionTLS13
	cfg.EncryptedClientHelloConfigList = zzECHConfigList(cfgID, aead, maxName)
	return
}

//verif:harness C15 ech_outer_hides_name_inner_decodes unwind=4000 instrs=900000000 paths=40000 wall=1200
//verif:stub (*math/rand.Rand).Shuffle zzStubShuffleIdentity
//verif:stub (*github.com/refraction-networking/utls/internal/hpke.Sender).Seal zzStubSeal
//verif:stub github.com/refraction-networking/utls/internal/hpke.SetupSender zzStubSetupSender
//verif:expect end
//verif:assume HPKE is opaque: SetupSender yields a 32-byte encapsulated key, Seal returns arbitrary bytes of plaintext length + 16; the server's reply is EOF (only the first flight is examined)
//verif:doc Handshake with an ECH config list (one usable config - config id symbolic; AEAD 1/2/3; max name length 0/14/64 - alone, followed by a second usable config, or preceded by a config with an unsupported KEM or of an unknown version; its cipher-suite list optionally starts with suites the client implements only half of) for HelloGolang and every ECH-capable parrot, all randomness symbolic: the single record written is an outer ClientHello that parses strictly, whose SNI is the config's public name and whose bytes outside the per-connection random fields nowhere contain Config.ServerName; the ECH extension names the config id and suite, carries the encapsulated key and exactly the sealed payload; the AAD handed to Seal is the outer hello with the payload zeroed; the HPKE context is set up with the info string "tls ech\0" || exactly the selected config's bytes, its public key and its suite; and the real server-side decodeInnerClientHello applied to the plaintext handed to Seal yields an inner hello naming ServerName whose key shares, session id, groups, signature algorithms and ALPN equal the outer values.
func zzC15ECHOuterHidesNameInnerDecodes() {
	zzECHListShapes = true
	p, cfg, cfgID, aead := zzECHSetup()
	zzECHListShapes = false
	zzSealCalls = nil
	conn := &zzRecConn{}
	uc := UClient(conn, cfg, p.id)
	herr := uc.Handshake()
	verifAssertClass(herr != nil, "handshake-stops-at-eof", p.name)
	verifAssertClass(len(conn.written) == 1 && len(conn.written[0]) > 5, "one-record-written", p.name)
	if len(conn.written) != 1 || len(conn.written[0]) <= 5 {
		return
	}
	rec := conn.written[0]
	verifAssertClass(rec[0] == 22 && int(rec[3])<<8|int(rec[4]) == len(rec)-5, "record-header", p.name)
	raw := rec[5:]
	verifAssertClass(len(zzSealCalls) >= 1, "inner-was-sealed", p.name)
	if len(zzSealCalls) == 0 {
		return
	}
	zzCheckECHOuter(raw, zzSealCalls[len(zzSealCalls)-1], cfgID, aead, true, p.name)
	// the HPKE context is set up for the selected config and nothing else
	verifAssertClass(zzBytesEq(zzHPKEInfo, zzCat([]byte("tls ech\x00"), zzECHSelectedConfig)), "hpke-info-is-the-selected-config", p.name)
	verifAssertClass(len(zzHPKEPub) == 32 && zzHPKEPub[0] == 9, "hpke-recipient-key-is-the-selected-configs", p.name)
	verifAssertClass(zzHPKESuite == [3]uint16{0x0020, 1, aead}, "hpke-suite-is-the-selected-configs", p.name)
	verifReach("end")
}

//verif:harness C15 ech_second_hello_after_hrr unwind=4000 instrs=900000000 paths=40000 wall=1200
//verif:stub (*math/rand.Rand).Shuffle zzStubShuffleIdentity
//verif:stub (*github.com/refraction-networking/utls/internal/hpke.Sender).Seal zzStubSeal
//verif:stub github.com/refraction-networking/utls/internal/hpke.SetupSender zzStubSetupSender
//verif:stub (crypto.Hash).New zzStubHashNew
//verif:stub (*utls.prng).Read zzStubPrngRead
//verif:expect accepted not-accepted
//verif:assume HPKE opaque (as above); the transcript hash is an uninterpreted function; HKDF-Extract / Expand-Label return arbitrary bytes (equal arguments, equal output), so the server's 8-byte HRR acceptance signal (symbolic) may or may not match: both outcomes are explored; the peer's flight is one HelloRetryRequest record, then EOF
//verif:doc Handshake with an ECH config list for HelloGolang and every ECH-capable parrot against a peer that answers with a HelloRetryRequest selecting a classical group the client listed without a share (and a fixed 8-byte ECH acceptance signal; Config.Rand concrete in this harness): a second ClientHello record is written whose key_share carries exactly one share, for the requested group, with the freshly generated key; when the HRR signals ECH acceptance the second outer hello again hides the server name, carries an ECH extension with an empty encapsulated key and the newly sealed payload, and the server-side decoder applied to the plaintext handed to Seal yields an inner hello naming ServerName whose key shares equal the outer (new) share.
func zzC15ECHSecondHelloAfterHRR() {
	p, cfg, cfgID, aead := zzECHSetup()
	// concrete Config.Rand here: the HelloRetryRequest echoes the session id and
	// the client searches the HRR bytes for the acceptance signal (bytes.Replace);
	// symbolic session-id bytes would make that search fork at every offset.
	// Key shares and HPKE outputs stay symbolic.
	cfg.Rand = zzCountingReader{}
	zzSealCalls = nil
	conn := &zzRecConn{}
	uc := UClient(conn, cfg, p.id)
	if err := uc.BuildHandshakeState(); err != nil {
		verifFail("build-fails", p.name)
		return
	}
	// which classical group to request: listed, no share sent
	var offered []CurveID
	var shares []CurveID
	if p.id.Client == helloGolang {
		offered = uc.HandshakeState.Hello.SupportedCurves
		for _, k := range uc.HandshakeState.Hello.KeyShares {
			shares = append(shares, k.Group)
		}
	} else {
		h1, why := zzRefParseClientHello(uc.HandshakeState.Hello.Raw)
		if why != "" {
			verifFail("first-hello-parses", p.name+":"+why)
			return
		}
		gb, _ := h1.ext(10)
		off16, _ := zzRefU16ListBody(gb, 2)
		kb, _ := h1.ext(51)
		sh16, _, _, _ := zzKeyShareEntries(kb)
		spec, _ := zzRefSpec(p.id)
		for i := range off16 {
			if g := specCurve(spec, i); !zzRefIsGREASE16Concrete(uint16(g)) {
				offered = append(offered, g)
			}
		}
		for i := range sh16 {
			if g := specShareGroup(spec, i); !zzRefIsGREASE16Concrete(uint16(g)) {
				shares = append(shares, g)
			}
		}
	}
	var group CurveID
	for _, g := range []CurveID{CurveP256, CurveP384, CurveP521, X25519} {
		in, sh := false, false
		for _, o := range offered {
			in = in || o == g
		}
		for _, s := range shares {
			sh = sh || s == g
		}
		if in && !sh {
			group = g
			break
		}
	}
	if group == 0 {
		verifReach("accepted")
		verifReach("not-accepted")
		return
	}
	hrr := &serverHelloMsg{vers: VersionTLS12, random: helloRetryRequestRandom, sessionId: uc.HandshakeState.Hello.SessionId, cipherSuite: TLS_AES_128_GCM_SHA256,
		supportedVersion: VersionTLS13, selectedGroup: group, encryptedClientHello: []byte{0xe1, 0xe2, 0xe3, 0xe4, 0xe5, 0xe6, 0xe7, 0xe8}}
	msg, merr := hrr.marshal()
	verifAssert(merr == nil, "hrr-marshals")
	conn.toRead = zzCat([]byte{22, 3, 3}, zzVec16(msg))
	herr := uc.Handshake()
	verifAssertClass(herr != nil, "handshake-ends-at-eof", p.name)
	second, ok := zzRecordPayload(conn, 1)
	verifAssertClass(ok, "second-client-hello-written", p.name)
	if !ok {
		return
	}
	h2, why2 := zzRefParseClientHello(second)
	verifAssertClass(why2 == "", "second-hello-parses-strictly", p.name+":"+why2)
	if why2 != "" {
		return
	}
	kb2, has := h2.ext(51)
	gs, _, _, ok2 := zzKeyShareEntries(kb2)
	verifAssertClass(has && ok2 && len(gs) == 1 && gs[0] == uint16(group), "second-hello-has-exactly-the-requested-share", p.name)
	if uc.echAccepted {
		verifReach("accepted")
		verifAssertClass(len(zzSealCalls) >= 2, "inner-sealed-again", p.name)
		if len(zzSealCalls) >= 2 {
			inner := zzCheckECHOuter(second, zzSealCalls[len(zzSealCalls)-1], cfgID, aead, false, p.name)
			if inner != nil {
				verifAssertClass(len(inner.keyShares) == 1 && inner.keyShares[0].group == group, "inner-carries-the-requested-share", p.name)
			}
		}
	} else {
		verifReach("not-accepted")
	}
}

// zzCountingReader: a concrete Config.Rand (byte k of every read is 0x40+k%32).
type zzCountingReader struct{}

func (zzCountingReader) Read(b []byte) (int, error) {
	for i := range b {
		b[i] = 0x40 + byte(i%32)
	}
	return len(b), nil
}

//verif:harness C15 ech_acceptance_decides_reported_name unwind=4000 instrs=900000000 paths=40000 wall=1200
//verif:stub (*math/rand.Rand).Shuffle zzStubShuffleIdentity
//verif:stub (*github.com/refraction-networking/utls/internal/hpke.Sender).Seal zzStubSeal
//verif:stub github.com/refraction-networking/utls/internal/hpke.SetupSender zzStubSetupSender
//verif:stub (crypto.Hash).New zzStubHashNew
//verif:expect accepted rejected
//verif:assume HPKE opaque; transcript hash uninterpreted; HKDF-Extract / Expand-Label arbitrary (equal arguments, equal output): the ServerHello's acceptance signal (last 8 random bytes, symbolic) may or may not match, both outcomes explored; the ServerHello carries no key share, so the handshake stops right after the acceptance decision
//verif:doc Handshake with an ECH config list for HelloGolang and every ECH-capable parrot against a scripted TLS 1.3 ServerHello whose random is symbolic: if the client decides ECH was accepted it reports ECHAccepted and ServerName = Config.ServerName and continues with the inner hello; otherwise it reports ECHAccepted=false and ServerName = the public name it put on the wire, and marks the offer rejected.
func zzC15ECHAcceptanceDecidesReportedName() {
	p, cfg, _, _ := zzECHSetup()
	cfg.Rand = zzCountingReader{}
	zzSealCalls = nil
	conn := &zzRecConn{}
	uc := UClient(conn, cfg, p.id)
	if err := uc.BuildHandshakeState(); err != nil {
		verifFail("build-fails", p.name)
		return
	}
	sh := &serverHelloMsg{vers: VersionTLS12, random: verifBytes("server-random", 32), sessionId: uc.HandshakeState.Hello.SessionId, cipherSuite: TLS_AES_128_GCM_SHA256,
		supportedVersion: VersionTLS13}
	// not a HelloRetryRequest, no downgrade canary
	verifAssume(sh.random[0] != helloRetryRequestRandom[0])
	verifAssume(sh.random[24] != 'D')
	msg, merr := sh.marshal()
	verifAssert(merr == nil, "server-hello-marshals")
	conn.toRead = zzCat([]byte{22, 3, 3}, zzVec16(msg))
	herr := uc.Handshake()
	verifAssertClass(herr != nil, "handshake-stops-without-server-share", p.name)
	st := uc.ConnectionState()
	if st.ECHAccepted {
		verifReach("accepted")
		verifAssertClass(st.ServerName == zzECHSecret, "accepted-reports-the-real-name", p.name)
	} else {
		verifReach("rejected")
		verifAssertClass(st.ServerName == zzECHPublic, "rejected-reports-the-public-name", p.name)
	}
}

//verif:harness C15 ech_retry_configs_captured unwind=400 paths=4000
//verif:stub (*utls.Conn).readHandshake zzStubReadHandshake
//verif:stub (*utls.Conn).sendAlert zzStubSendAlert
//verif:expect rejected accepted-clean accepted-with-retry
//verif:doc readServerParameters (TLS 1.3 EncryptedExtensions) with an ECH context that is rejected or accepted and a server message whose retry_configs are absent or 1..3 symbolic bytes: after a rejected offer the retry configs the caller will receive in ECHRejectionError are exactly the server's bytes; after an accepted offer retry configs are refused with unsupported_extension.
func zzC15ECHRetryConfigsCaptured() {
	c := &Conn{config: &Config{ServerName: zzECHSecret}, isClient: true, vers: VersionTLS13}
	rejected := verifBool("ech-rejected")
	var rc []byte
	if n := verifChoice("retry-config-len", 4); n > 0 {
		rc = verifBytes("retry-config", n)
	}
	hs := &clientHandshakeStateTLS13{c: c, hello: &clientHelloMsg{}, echContext: &echClientContext{echRejected: rejected}, transcript: &zzUFHash{}}
	zzInbox = []any{&encryptedExtensionsMsg{echRetryConfigs: rc}}
	zzAlerts = nil
	err := hs.readServerParameters()
	if rejected {
		verifReach("rejected")
		verifAssert(err == nil, "rejected-offer-continues")
		verifAssert(len(hs.echContext.retryConfigs) == len(rc) && zzBytesEq(hs.echContext.retryConfigs, rc), "retry-configs-are-the-servers")
		e := &ECHRejectionError{hs.echContext.retryConfigs}
		verifAssert(zzBytesEq(e.RetryConfigList, rc), "rejection-error-carries-them")
	} else if rc == nil {
		verifReach("accepted-clean")
		verifAssert(err == nil, "accepted-offer-continues")
	} else {
		verifReach("accepted-with-retry")
		verifAssert(err != nil && len(zzAlerts) == 1 && zzAlerts[0] == alertUnsupportedExtension, "retry-configs-after-acceptance-refused")
	}
}
