package tls

import (
	"crypto/x509"
	"errors"

	"github.com/refraction-networking/utls/internal/hpke"
)

// ---- C25: TLS 1.3 KeyUpdate ----

var zzSetSecretCalls []*halfConn

func zzStubSetTrafficSecretRec(hc *halfConn, suite *cipherSuiteTLS13, level QUICEncryptionLevel, secret []byte) {
	zzSetSecretCalls = append(zzSetSecretCalls, hc)
	hc.trafficSecret = secret
}

//verif:harness C25 key_update_rotates_only_what_it_must unwind=400 paths=2000
//verif:stub (*utls.halfConn).setTrafficSecret zzStubSetTrafficSecretRec
//verif:stub (*utls.Conn).sendAlert zzStubSendAlert
//verif:expect requested not-requested
//verif:assume HKDF-Expand-Label ("traffic upd") is opaque: equal inputs give equal outputs; installing a traffic secret only records it (the AEAD is not re-keyed in the model)
//verif:doc Conn.handleKeyUpdate (TLS 1.3 post-handshake) with update_requested arbitrary, on a connection whose read and write traffic secrets are distinct symbolic byte strings: the read secret is always replaced by the next-generation secret of the OLD READ secret; the write secret is replaced (by the next generation of the old WRITE secret, after exactly one KeyUpdate record was written under the old key) iff the peer requested an update - otherwise the write direction is left alone, so that the peer can still read what is sent.
func zzC25KeyUpdateRotatesOnlyWhatItMust() {
	zzAlerts, zzSetSecretCalls = nil, nil
	conn := &zzRecConn{}
	c := &Conn{conn: conn, config: &Config{}, isClient: verifBool("is-client"), vers: VersionTLS13, cipherSuite: TLS_AES_128_GCM_SHA256}
	c.isHandshakeComplete.Store(true)
	inOld := verifBytes("read-secret", 4)
	outOld := verifBytes("write-secret", 4)
	c.in.trafficSecret, c.out.trafficSecret = inOld, outOld
	req := verifBool("update-requested")
	suite := cipherSuiteTLS13ByID(TLS_AES_128_GCM_SHA256)
	wantIn := suite.nextTrafficSecret(inOld)
	wantOut := suite.nextTrafficSecret(outOld)
	err := c.handleKeyUpdate(&keyUpdateMsg{updateRequested: req})
	verifAssert(err == nil, "key-update-handled")
	verifAssert(zzBytesEq(c.in.trafficSecret, wantIn), "read-secret-is-next-generation-of-old-read-secret")
	if req {
		verifReach("requested")
		verifAssert(zzBytesEq(c.out.trafficSecret, wantOut), "write-secret-is-next-generation-of-old-write-secret")
		verifAssert(len(conn.written) == 1 && len(conn.written[0]) > 5 && conn.written[0][0] == 22, "one-key-update-record-sent")
		verifAssert(len(zzSetSecretCalls) == 2 && zzSetSecretCalls[0] == &c.in && zzSetSecretCalls[1] == &c.out, "read-then-write-rekeyed")
	} else {
		verifReach("not-requested")
		verifAssert(zzBytesEq(c.out.trafficSecret, outOld), "write-secret-untouched-without-request")
		verifAssert(len(conn.written) == 0, "nothing-sent-without-request")
		verifAssert(len(zzSetSecretCalls) == 1 && zzSetSecretCalls[0] == &c.in, "only-read-rekeyed")
	}
}

// ---- C33 / C21: the Certificate step with a compressed certificate ----

var zzVerifyCalledWith int

func zzStubVerifyServerCertificate(c *Conn, certs [][]byte) error {
	zzVerifyCalledWith = len(certs)
	_ = certs[0] // what the real function does first: index the leaf
	return errors.New("zz: stop after verification was entered")
}

//verif:harness C33 compressed_certificate_step_hostile unwind=400 paths=100000 wall=900
//verif:stub (*utls.Conn).readHandshake zzStubReadHandshake
//verif:stub (*utls.Conn).sendAlert zzStubSendAlert
//verif:stub github.com/andybalholm/brotli.NewReader zzStubBrotliNewReader
//verif:stub (*github.com/andybalholm/brotli.Reader).Read zzStubBrotliRead
//verif:stub (*utls.Conn).verifyServerCertificate zzStubVerifyServerCertificate
//verif:expect verified refused not-handled
//verif:assume the brotli decoder is an arbitrary reader over the hidden content; chain verification is a stub that indexes the leaf as the real one does; the transcript hash is uninterpreted
//verif:doc clientHandshakeStateTLS13.readServerCertificate fed a CompressedCertificate (brotli) whose content is a well-formed Certificate message with an EMPTY certificate_list or with one 1-byte certificate, on a connection that (a) advertises compress_certificate, (b) advertised it in an earlier build but has since had the extension removed from Extensions (stale certCompressionAlgs), (c) never advertised it: never panics; an empty list is refused with decode_error before chain verification is entered; verification is entered only with a non-empty chain; in (b) and (c) the compressed message is not accepted (unexpected_message).
func zzC33CompressedCertificateStepHostile() {
	zzAlerts, zzVerifyCalledWith = nil, -1
	c := &Conn{config: &Config{ServerName: "a.example"}, isClient: true, vers: VersionTLS13}
	uc := &UConn{Conn: c}
	adv := verifChoice("advertised", 3)
	switch adv {
	case 0:
		uc.Extensions = []TLSExtension{&UtlsCompressCertExtension{Algorithms: []CertCompressionAlgo{CertCompressionBrotli}}}
		uc.certCompressionAlgs = []CertCompressionAlgo{CertCompressionBrotli}
	case 1:
		uc.Extensions = []TLSExtension{&SNIExtension{}}
		uc.certCompressionAlgs = []CertCompressionAlgo{CertCompressionBrotli} // left over from an earlier build
	case 2:
		uc.Extensions = []TLSExtension{&SNIExtension{}}
	}
	content := []byte{0, 0, 0, 0}
	empty := verifBool("empty-certificate-list")
	if !empty {
		content = zzCat([]byte{0}, zzVec24(zzCat(zzVec24([]byte{verifU8("cert-byte")}), []byte{0, 0})))
	}
	zzDecompContent, zzDecompPos, zzDecompReads, zzZlibHeaderErr = content, 0, 0, false
	hs := &clientHandshakeStateTLS13{c: c, uconn: uc, transcript: &zzUFHash{}}
	zzInbox = []any{&utlsCompressedCertificateMsg{algorithm: uint16(CertCompressionBrotli), uncompressedLength: uint32(len(content)), compressedCertificateMessage: []byte{1, 2, 3}}}
	err := hs.readServerCertificate()
	verifAssert(err != nil, "step-ends-with-an-error-in-this-script")
	if zzVerifyCalledWith >= 0 {
		verifReach("verified")
		verifAssert(zzVerifyCalledWith > 0 && !empty, "verification-entered-only-with-a-chain")
		verifAssert(adv == 0, "compressed-certificate-accepted-only-when-advertised")
		return
	}
	if adv == 0 {
		verifReach("refused")
		verifAssert(empty, "well-formed-non-empty-chain-reaches-verification")
		verifAssert(len(zzAlerts) >= 1, "refusal-sends-an-alert")
	} else {
		verifReach("not-handled")
		verifAssert(len(zzAlerts) >= 1 && zzAlerts[0] == alertUnexpectedMessage, "unadvertised-compressed-certificate-is-unexpected")
	}
}

// ---- C14: no handshake without a name to verify ----

//verif:harness C14 no_handshake_without_verification_name unwind=4000 instrs=600000000 paths=20000 wall=900
//verif:stub (*math/rand.Rand).Shuffle zzStubShuffleIdentity
//verif:expect refused proceeds
//verif:doc The handshake-time guard behind C14: a UConn (sampled parrots) built with a valid ServerName, then SetSNI with an IP literal, an empty string or another DNS name (SetSNI stores hostnameInSNI(name) in Config.ServerName, which is empty for IP literals), with InsecureSkipVerify / InsecureServerNameToVerify unset or set: Handshake sends nothing and returns an error whenever verification is on and there is no name to verify (ServerName and InsecureServerNameToVerify both empty); otherwise the ClientHello is written.
func zzC14NoHandshakeWithoutVerificationName() {
	p := zzChooseParrotSample()
	cfg := zzConfig("example.com")
	cfg.OmitEmptyPsk = true
	cfg.InsecureSkipVerify = verifBool("insecure-skip-verify")
	if verifBool("name-override") {
		cfg.InsecureServerNameToVerify = "real.example"
	}
	conn := &zzRecConn{}
	uc := UClient(conn, cfg, p.id)
	if uc.BuildHandshakeState() != nil {
		verifReach("refused")
		verifReach("proceeds")
		return
	}
	names := []string{"192.0.2.7", "", "other.example", "[2001:db8::1]"}
	uc.SetSNI(names[verifChoice("set-sni", len(names))])
	err := uc.Handshake()
	noName := uc.config.ServerName == "" && cfg.InsecureServerNameToVerify == "" && !cfg.InsecureSkipVerify
	if noName {
		verifReach("refused")
		verifAssertClass(err != nil && len(conn.written) == 0, "no-client-hello-without-a-name-to-verify", p.name)
	} else {
		verifReach("proceeds")
		verifAssertClass(len(conn.written) >= 1, "client-hello-written", p.name)
	}
}

var _ = x509.Certificate{}

// ---- C22: order of the client's second flight ----

var zzALPSCodepoint uint16
var zzWantCertReq bool

func zzStubNil13(hs *clientHandshakeStateTLS13) error { return nil }
func zzStubReadServerParametersALPS(hs *clientHandshakeStateTLS13) error {
	hs.c.clientProtocol = "h2"
	hs.c.utls.applicationSettingsCodepoint = zzALPSCodepoint
	hs.c.utls.localApplicationSettings = []byte{0xa1}
	return nil
}
func zzStubReadServerCertificateReq(hs *clientHandshakeStateTLS13) error {
	if zzWantCertReq {
		hs.certReq = &certificateRequestMsgTLS13{supportedSignatureAlgorithms: []SignatureScheme{ECDSAWithP256AndSHA256}}
	}
	return nil
}
func zzStubReadServerFinished(hs *clientHandshakeStateTLS13) error {
	hs.trafficSecret = make([]byte, 32)
	hs.c.out.trafficSecret = make([]byte, 32) // client handshake traffic secret (establishHandshakeKeys is a stub)
	return nil
}

// zzSplitRecords splits concatenated TLS records.
func zzSplitRecords(b []byte) (types []byte, payloads [][]byte, ok bool) {
	for len(b) > 0 {
		if len(b) < 5 {
			return nil, nil, false
		}
		n := int(b[3])<<8 | int(b[4])
		if len(b) < 5+n {
			return nil, nil, false
		}
		types = append(types, b[0])
		payloads = append(payloads, b[5:5+n])
		b = b[5+n:]
	}
	return types, payloads, true
}

//verif:harness C22 client_second_flight_order unwind=4000 instrs=400000000 paths=2000
//verif:stub (crypto.Hash).New zzStubHashNew
//verif:stub (*utls.Conn).sendAlert zzStubSendAlert
//verif:stub (*utls.clientHandshakeStateTLS13).processServerHello zzStubNil13
//verif:stub (*utls.clientHandshakeStateTLS13).establishHandshakeKeys zzStubNil13
//verif:stub (*utls.clientHandshakeStateTLS13).readServerParameters zzStubReadServerParametersALPS
//verif:stub (*utls.clientHandshakeStateTLS13).readServerCertificate zzStubReadServerCertificateReq
//verif:stub (*utls.clientHandshakeStateTLS13).readServerFinished zzStubReadServerFinished
//verif:stub (*utls.cipherSuiteTLS13).finishedHash zzStubFinishedHash
//verif:stub (*utls.halfConn).setTrafficSecret zzStubSetTrafficSecret
//verif:expect end
//verif:assume the server's flight is replaced by stubs that leave the negotiated state behind (ALPS on code point 17513 / 17613 / not negotiated; a CertificateRequest or none); transcript hash and Finished MAC are uninterpreted; records are written in the clear (no key installed in the model)
//verif:doc The real clientHandshakeStateTLS13.handshake() from the point where the server's Finished has been read: the handshake messages of the client's second flight appear on the wire in the order EncryptedExtensions (iff ALPS was negotiated, carrying the local settings), Certificate (iff the server requested one), Finished - and each is fed to the transcript in that same order, so that a server expecting the ALPS message first (and verifying Finished over it) accepts the flight.
func zzC22ClientSecondFlightOrder() {
	zzAlerts = nil
	zzALPSCodepoint = []uint16{0, 17513, 17613}[verifChoice("alps-codepoint", 3)]
	zzWantCertReq = verifBool("certificate-requested")
	conn := &zzRecConn{}
	cfg := &Config{ServerName: "a.example", Rand: zzRandReader{}, Time: zzFixedTime, SessionTicketsDisabled: true,
		GetClientCertificate: func(*CertificateRequestInfo) (*Certificate, error) { return &Certificate{}, nil }}
	c := &Conn{conn: conn, config: cfg, isClient: true, vers: VersionTLS13}
	uc := &UConn{Conn: c}
	key, kerr := generateECDHEKey(zzRandReader{}, X25519)
	if kerr != nil {
		verifFail("key-generation", "")
		return
	}
	hello := &clientHelloMsg{vers: VersionTLS12, random: make([]byte, 32), sessionId: []byte{5, 5}, cipherSuites: []uint16{TLS_AES_128_GCM_SHA256}, compressionMethods: []uint8{0},
		supportedVersions: []uint16{VersionTLS13}, keyShares: []keyShare{{group: X25519, data: key.PublicKey().Bytes()}}, alpnProtocols: []string{"h2"}}
	sh := &serverHelloMsg{vers: VersionTLS12, random: make([]byte, 32), sessionId: []byte{5, 5}, cipherSuite: TLS_AES_128_GCM_SHA256, supportedVersion: VersionTLS13,
		serverShare: keyShare{group: X25519, data: make([]byte, 32)}}
	hs := &clientHandshakeStateTLS13{c: c, uconn: uc, hello: hello, serverHello: sh, keyShareKeys: &keySharePrivateKeys{curveID: X25519, ecdhe: key}}
	err := hs.handshake()
	verifAssert(err == nil, "handshake-steps-complete")
	var all []byte
	for _, w := range conn.written {
		all = append(all, w...)
	}
	types, pays, ok := zzSplitRecords(all)
	verifAssert(ok, "records-well-formed")
	var msgs []byte
	for i, t := range types {
		if t == 22 {
			p := pays[i]
			for len(p) >= 4 {
				n := int(p[1])<<16 | int(p[2])<<8 | int(p[3])
				if len(p) < 4+n {
					break
				}
				msgs = append(msgs, p[0])
				p = p[4+n:]
			}
		}
	}
	var want []byte
	if zzALPSCodepoint != 0 {
		want = append(want, typeEncryptedExtensions)
	}
	if zzWantCertReq {
		want = append(want, typeCertificate)
	}
	want = append(want, typeFinished)
	verifAssert(len(msgs) == len(want) && zzBytesEq(msgs, want), "second-flight-is-encrypted-extensions-certificate-finished")
	// the transcript saw them in the same order
	if tr, ok := hs.transcript.(*zzUFHash); ok {
		var seen []byte
		for _, w := range tr.writes {
			if len(w) >= 4 && (w[0] == typeEncryptedExtensions || w[0] == typeCertificate || w[0] == typeFinished) && len(w) == 4+(int(w[1])<<16|int(w[2])<<8|int(w[3])) {
				seen = append(seen, w[0])
			}
		}
		verifAssert(len(seen) >= len(want) && zzBytesEq(seen[len(seen)-len(want):], want), "transcript-order-is-wire-order")
	}
	verifReach("end")
}

// ---- C34: the server's handling of the second ClientHello after a HelloRetryRequest ----

func zzStubDecryptECHPayload(r *hpke.Receipient, hello, ciphertext []byte) ([]byte, error) {
	_ = *r // the real HPKE Open dereferences its receiver: a nil context is a crash, not an error
	if verifBool("hpke-open-fails") {
		return nil, errors.New("zz: modelled HPKE open failure")
	}
	n := len(ciphertext) - 16
	if n < 0 {
		return nil, errors.New("zz: ciphertext shorter than the tag")
	}
	return verifBytes("hpke-plaintext", n), nil
}

//verif:harness C34 server_second_client_hello_hostile unwind=600 paths=400000 wall=1200
//verif:stub (*utls.Conn).readHandshake zzStubReadHandshake
//verif:stub (*utls.Conn).sendAlert zzStubSendAlert
//verif:stub (crypto.Hash).New zzStubHashNew
//verif:stub utls.decryptECHPayload zzStubDecryptECHPayload
//verif:expect accepted refused
//verif:assume decryptECHPayload (AAD construction + HPKE Open) is opaque - arbitrary plaintext or failure - but dereferences the HPKE context as the real one does; transcript hash and HKDF are uninterpreted
//verif:doc serverHandshakeStateTLS13.doHelloRetryRequest when the client's FIRST hello carried no ECH extension, an "inner"-type one, or an "outer"-type one that the server decrypted, and the SECOND ClientHello is attacker-controlled: encrypted_client_hello extension absent or 1..11 arbitrary bytes (covers both ECH types, every suite / config id, empty or non-empty encapsulated key and payload), 0..2 key shares with arbitrary groups, early_data flag arbitrary: the function returns a key share or an error with an alert and never panics (in particular it never uses an HPKE context it does not have).
func zzC34ServerSecondClientHelloHostile() {
	zzAlerts = nil
	conn := &zzRecConn{}
	c := &Conn{conn: conn, config: &Config{Rand: zzRandReader{}, Time: zzFixedTime}, vers: VersionTLS13}
	first := &clientHelloMsg{vers: VersionTLS12, random: make([]byte, 32), sessionId: []byte{1}, cipherSuites: []uint16{TLS_AES_128_GCM_SHA256}, compressionMethods: []uint8{0},
		supportedVersions: []uint16{VersionTLS13}, supportedCurves: []CurveID{X25519, CurveP256}, keyShares: []keyShare{{group: X25519, data: make([]byte, 32)}}}
	first.original, _ = first.marshal()
	hs := &serverHandshakeStateTLS13{c: c, clientHello: first, suite: cipherSuiteTLS13ByID(TLS_AES_128_GCM_SHA256), transcript: &zzUFHash{},
		hello: &serverHelloMsg{vers: VersionTLS12, sessionId: []byte{1}, cipherSuite: TLS_AES_128_GCM_SHA256, supportedVersion: VersionTLS13}}
	switch verifChoice("first-hello-ech", 3) {
	case 1:
		hs.echContext = &echServerContext{inner: true}
	case 2:
		hs.echContext = &echServerContext{hpkeContext: &hpke.Receipient{}, configID: 7, ciphersuite: echCipher{KDFID: 1, AEADID: 1}, transcript: &zzUFHash{}}
	}
	second := &clientHelloMsg{vers: VersionTLS12, random: make([]byte, 32), sessionId: []byte{1}, cipherSuites: []uint16{TLS_AES_128_GCM_SHA256}, compressionMethods: []uint8{0},
		supportedVersions: []uint16{VersionTLS13}, supportedCurves: []CurveID{X25519, CurveP256}, earlyData: verifBool("early-data")}
	for i, n := 0, verifChoice("key-shares", 3); i < n; i++ {
		second.keyShares = append(second.keyShares, keyShare{group: CurveID(verifU16("share-group")), data: []byte{1}})
	}
	if n := verifChoice("ech-ext-len", 12); n > 0 {
		second.encryptedClientHello = verifBytes("ech-ext", n)
	}
	second.original, _ = second.marshal()
	zzInbox = []any{second}
	ks, err := hs.doHelloRetryRequest(CurveP256)
	if err != nil {
		verifReach("refused")
		verifAssert(ks == nil, "no-share-with-error")
		return
	}
	verifReach("accepted")
	verifAssert(ks != nil && ks.group == CurveP256, "accepted-share-is-for-the-requested-group")
}

//verif:harness C21 compressed_certificate_only_when_advertised unwind=400 paths=100000 wall=900
//verif:stub (*utls.Conn).readHandshake zzStubReadHandshake
//verif:stub (*utls.Conn).sendAlert zzStubSendAlert
//verif:stub github.com/andybalholm/brotli.NewReader zzStubBrotliNewReader
//verif:stub (*github.com/andybalholm/brotli.Reader).Read zzStubBrotliRead
//verif:stub (*utls.Conn).verifyServerCertificate zzStubVerifyServerCertificate
//verif:expect verified refused not-handled
//verif:assume as C33 compressed_certificate_step_hostile
//verif:doc The C21 half of C33 compressed_certificate_step_hostile (same scenario): a CompressedCertificate is decompressed and accepted by readServerCertificate only on a connection whose current extension list advertises compress_certificate - not when the extension was removed after an earlier build (stale certCompressionAlgs) and not when it was never offered.
func zzC21CompressedCertificateOnlyWhenAdvertised() { zzC33CompressedCertificateStepHostile() }
