package tls

import "io"

// zzC08Exact: Len/Read vs reference without the short-buffer sweep (used for
// boundary sizes, where the content is concrete).
func zzC08Exact(e TLSExtension, want []byte, class string) {
	l := e.Len()
	verifAssertClass(l == len(want), "len-equals-reference-length", class)
	if l != len(want) {
		return
	}
	buf := make([]byte, l)
	n, err := e.Read(buf)
	verifAssertClass(n == l && (err == nil || err == io.EOF), "read-writes-len", class)
	verifAssertClass(zzBytesEq(buf, want), "bytes-equal-reference", class)
	short := make([]byte, l-1)
	n2, err2 := e.Read(short)
	verifAssertClass(n2 == 0 && err2 == io.ErrShortBuffer, "short-buffer-error", class)
}

//verif:harness C08 boundary_lengths unwind=4000 instrs=400000000
//verif:expect end
//verif:doc Variable-length extensions at chosen boundary sizes around the 1-byte/2-byte length-prefix limits (payloads of 253..257, 511, 512 bytes; u16 lists of 126..129 entries; 255-byte protocol names), concrete zero content with one symbolic byte: Len/Read equal the reference encoding and a buffer one byte short is refused.
func zzC08BoundaryLengths() {
	sizes := []int{253, 254, 255, 256, 257, 511, 512}
	sz := sizes[verifChoice("size", len(sizes))]
	d := make([]byte, sz)
	d[sz-1] = verifU8("last")
	switch verifChoice("which", 9) {
	case 0:
		zzC08Exact(&CookieExtension{Cookie: d}, zzTLV(44, zzVec16(d)), "cookie")
	case 1:
		zzC08Exact(&GenericExtension{Id: 0x1234, Data: d}, zzTLV(0x1234, d), "generic")
	case 2:
		zzC08Exact(&UtlsGREASEExtension{Value: 0x1a1a, Body: d}, zzTLV(0x1a1a, d), "grease")
	case 3:
		zzC08Exact(&SessionTicketExtension{Ticket: d}, zzTLV(35, d), "session-ticket")
	case 4:
		zzC08Exact(&KeyShareExtension{KeyShares: []KeyShare{{Group: X25519, Data: d}}}, zzTLV(51, zzVec16(zzCat(zzU16(29), zzVec16(d)))), "key-share")
	case 5:
		n := []int{126, 127, 128, 129}[verifChoice("entries", 4)]
		vs := make([]uint16, n)
		cs := make([]CurveID, n)
		ss := make([]SignatureScheme, n)
		for i := range vs {
			vs[i] = uint16(0x0100 + i)
			cs[i] = CurveID(vs[i])
			ss[i] = SignatureScheme(vs[i])
		}
		zzC08Exact(&SupportedCurvesExtension{Curves: cs}, zzTLV(10, zzVec16(zzU16List(vs))), "supported-curves")
		zzC08Exact(&SignatureAlgorithmsExtension{SupportedSignatureAlgorithms: ss}, zzTLV(13, zzVec16(zzU16List(vs))), "signature-algorithms")
	case 6:
		name := string(make([]byte, 255))
		ps := []string{name, "h2"}
		zzC08Exact(&ALPNExtension{AlpnProtocols: ps}, zzTLV(16, zzVec16(zzProtoEnc(ps))), "alpn")
	case 7:
		lab := d
		bd := make([]byte, 32)
		ids := []PskIdentity{{Label: lab, ObfuscatedTicketAge: 7}}
		zzC08Exact(&FakePreSharedKeyExtension{Identities: ids, Binders: [][]byte{bd}}, zzTLV(41, zzCat(zzVec16(zzCat(zzVec16(lab), []byte{0, 0, 0, 7})), zzVec16(zzVec8(bd)))), "fake-psk")
	case 8:
		zzC08Exact(&UtlsPaddingExtension{PaddingLen: sz, WillPad: true}, zzTLV(21, make([]byte, sz)), "padding")
	}
	verifReach("end")
}
