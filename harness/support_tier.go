package tls

// zzTierN: a bound that is wider in the thorough tier.
func zzTierN(quick, thorough int) int {
	if verifThorough() {
		return thorough
	}
	return quick
}
