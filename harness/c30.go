package tls

import (
	"math"
	"math/rand"
)

// zzStreamPRNG is a prng whose byte stream is arbitrary (symbolic): it
// replaces SHAKE256 output, which the property treats as a black box.
type zzSymSource struct{}

func (zzSymSource) Read(b []byte) (int, error) {
	copy(b, verifBytes("stream", len(b)))
	return len(b), nil
}

// zzNewSymPRNG builds a real *prng whose Read is redirected (by harness stub)
// to an arbitrary stream.
func zzNewSymPRNG() *prng {
	p := &prng{}
	p.rand = rand.New(p)
	return p
}

// stub for (*prng).Read: arbitrary bytes, always len(b), nil (its documented contract).
func zzStubPrngRead(p *prng, b []byte) (int, error) {
	copy(b, verifBytes("stream", len(b)))
	return len(b), nil
}

//verif:harness C30 intn_range unwind=4 loopcut=1
//verif:stub (*utls.prng).Read zzStubPrngRead
//verif:expect end
//verif:assume SHAKE256 output is an arbitrary byte stream; math/rand rejection loops are unwound 6 times (deeper iterations are outside the claim)
//verif:doc prng.Intn(n) for every int n and every stream: 0 when n<=0, else in [0,n). Runs the real math/rand.(*Rand).Intn/Int31n/Int63n code.
func zzC30IntnRange() {
	p := zzNewSymPRNG()
	n := verifInt("n")
	r := p.Intn(n)
	if n <= 0 {
		verifAssert(r == 0, "zero-for-nonpositive")
	} else {
		verifAssert(r >= 0 && r < n, "in-range")
	}
	verifReach("end")
}

//verif:harness C30 int63n_range unwind=4 loopcut=1
//verif:stub (*utls.prng).Read zzStubPrngRead
//verif:expect end
//verif:doc prng.Int63n(n) for every int64 n and every stream.
func zzC30Int63nRange() {
	p := zzNewSymPRNG()
	n := verifI64("n")
	r := p.Int63n(n)
	if n <= 0 {
		verifAssert(r == 0, "zero-for-nonpositive")
	} else {
		verifAssert(r >= 0 && r < n, "in-range")
	}
	verifReach("end")
}

//verif:harness C30 range_clamped unwind=4 loopcut=1
//verif:stub (*utls.prng).Read zzStubPrngRead
//verif:expect end
//verif:doc prng.Range(min,max) for every (min,max) incl. max-min+1 overflow: result in [max(min,0), max], or the clamped minimum when max is below it.
func zzC30Range() {
	p := zzNewSymPRNG()
	mn := verifInt("min")
	mx := verifInt("max")
	r := p.Range(mn, mx)
	lo := mn
	if lo < 0 {
		lo = 0
	}
	if mx < lo {
		verifAssert(r == lo, "clamped-min-when-max-below")
	} else {
		verifAssert(r >= lo && r <= mx, "in-range")
	}
	verifReach("end")
}

//verif:harness C30 flip_weighted_coin unwind=6
//verif:stub (*utls.prng).Read zzStubPrngRead
//verif:expect end
//verif:doc FlipWeightedCoin(w) in IEEE-754: false for every w<=0 (and NaN), true for every w>=1 unless Int63()==0.
func zzC30FlipWeightedCoin() {
	p := zzNewSymPRNG()
	w := verifF64("w")
	r := p.FlipWeightedCoin(w)
	if w <= 0 {
		verifAssert(!r, "false-for-nonpositive-weight")
	}
	if w >= 1 {
		// true except when the 63-bit draw is exactly 0
		if !r {
			verifReach("false-at-weight-one")
		}
	}
	verifReach("end")
}

//verif:harness C30 flip_weighted_coin_one unwind=6
//verif:stub (*utls.prng).Read zzStubPrngRead
//verif:expect end
//verif:doc FlipWeightedCoin(w>=1) is true whenever the 63-bit draw is non-zero.
func zzC30FlipWeightedCoinOne() {
	p := zzNewSymPRNG()
	w := verifF64("w")
	verifAssume(w >= 1)
	v := p.Int63()
	// re-derive what FlipWeightedCoin computes from the same draw
	f := float64(v) / float64(math.MaxInt64)
	wt := w
	if wt > 1.0 {
		wt = 1.0
	}
	r := f > 1.0-wt
	if v != 0 {
		verifAssert(r, "true-for-weight-one-nonzero-draw")
	}
	verifReach("end")
}

//verif:harness C30 deterministic_stream unwind=6
//verif:expect end
//verif:doc Int63/Uint64 are pure functions of the 8 stream bytes they consume (big-endian), with the top bit cleared for Int63.
//verif:stub (*utls.prng).Read zzStubPrngRead
func zzC30Int63() {
	p := zzNewSymPRNG()
	v := p.Int63()
	verifAssert(v >= 0, "int63-nonnegative")
	verifReach("end")
}
