package tls

import (
	"errors"
)

// zzMinimalHelloPrefix: record header + handshake header + version + random +
// empty session id + one cipher suite + null compression (lengths are patched
// by the caller), followed by `tail`.
func zzHelloWithExtensionBlock(ext []byte) []byte {
	body := zzCat([]byte{3, 3}, make([]byte, 32), []byte{0}, []byte{0, 2, 0x13, 0x01}, []byte{1, 0}, zzVec16(ext))
	hs := zzCat([]byte{1}, zzVec24(body))
	return zzCat([]byte{22, 3, 1}, zzVec16(hs))
}

//verif:harness C07 fromraw_short_inputs unwind=200 paths=60000
//verif:expect end
//verif:doc FromRaw / FingerprintClientHello on arbitrary bytes of every length 0..10 (quick) / 0..14 (thorough): returns (spec|nil, err), never panics.
func zzC07FromRawShort() {
	max := 11
	if verifThorough() {
		max = 15
	}
	n := verifChoice("n", max)
	raw := verifBytes("raw", n)
	spec := &ClientHelloSpec{}
	err := spec.FromRaw(raw, verifBool("blunt"), verifBool("realpsk"))
	_ = err
	f := &Fingerprinter{AllowBluntMimicry: verifBool("fblunt"), AlwaysAddPadding: verifBool("fpad")}
	s2, err2 := f.FingerprintClientHello(raw)
	verifAssert((s2 == nil) == (err2 != nil), "spec-or-error")
	verifReach("end")
}

//verif:harness C07 fromraw_arbitrary_extension_block unwind=400 paths=200000 wall=900
//verif:expect end accepted
//verif:doc FromRaw on a ClientHello whose fixed part is well-formed and whose extension block is arbitrary bytes of every length 0..7 (quick) / 0..10 (thorough), with both control flags symbolic: never panics; when it succeeds and the input is a valid ClientHello under the strict reference grammar (no repeated extension type, pre_shared_key last), applying the spec and marshalling does not panic either.
func zzC07FromRawArbitraryExtensions() {
	max := 8
	if verifThorough() {
		max = 11
	}
	n := verifChoice("n", max)
	ext := verifBytes("ext", n)
	raw := zzHelloWithExtensionBlock(ext)
	spec := &ClientHelloSpec{}
	err := spec.FromRaw(raw, verifBool("blunt"), verifBool("realpsk"))
	if err == nil {
		verifReach("accepted")
		// a spec obtained from a SYNTACTICALLY VALID capture must be usable: apply +
		// marshal never panic. Validity is the strict reference grammar (no repeated
		// extension type, pre_shared_key last); for other inputs C07 only requires
		// that the importer itself does not panic.
		if _, why := zzRefParseClientHello(raw[5:]); why != "" {
			verifReach("end")
			return
		}
		cfg := zzConfig("example.com")
		cfg.OmitEmptyPsk = true
		uc := UClient(&zzRecConn{}, cfg, HelloCustom)
		if aerr := uc.ApplyPreset(spec); aerr == nil {
			_ = uc.BuildHandshakeState()
		}
	}
	verifReach("end")
}

//verif:harness C07 extension_write_arbitrary_body unwind=400 paths=200000 wall=900
//verif:expect end
//verif:doc Every extension type ExtensionFromID can return (all 16-bit ids, symbolic) fed an arbitrary body of every length 0..6 (quick) / 0..10 (thorough) through Write: error or success, never a panic; after a successful Write, Len and Read do not panic and agree, and the encoding carries the code point the extension object was chosen for.
func zzC07ExtensionWriteArbitrary() {
	id := verifU16("id")
	e := ExtensionFromID(id)
	w, ok := e.(TLSExtensionWriter)
	if e == nil || !ok {
		verifReach("end")
		return
	}
	max := 7
	if verifThorough() {
		max = 11
	}
	n := verifChoice("n", max)
	body := verifBytes("body", n)
	_, err := w.Write(body)
	if err == nil {
		l := w.Len()
		verifAssume(l >= 0 && l <= 4096)
		buf := make([]byte, verifConcretize(l))
		k, _ := w.Read(buf)
		verifAssert(k == 0 || k == len(buf), "read-after-write-consistent")
		if k >= 2 && !zzRefIsGREASE16(id) {
			// the extension object chosen for code point id encodes as code point id
			verifAssert(uint16(buf[0])<<8|uint16(buf[1]) == id, "extension-from-id-keeps-the-code-point")
		}
	}
	verifReach("end")
}

//verif:harness C07 import_map unwind=400 paths=200000 wall=900
//verif:expect end
//verif:doc ImportTLSClientHello on a tlsfingerprint.io map: for each per-extension key K in turn, the extensions list names the extension that consumes K (preceded, in the thorough tier, by one arbitrary 16-bit id) and K is either absent or an arbitrary value of 0..6 bytes (key_share entry lengths < 3 so the zero-fill loop stays bounded); cipher_suites is arbitrary 0..3 bytes: returns an error or a spec, never panics.
func zzC07ImportMap() {
	keys := []string{"pt_fmts", "sig_algs", "supported_versions", "curves", "alpn", "key_share", "psk_key_exchange_modes", "cert_compression_algs", "record_size_limit"}
	ids := []uint16{11, 13, 43, 10, 16, 51, 45, 27, 28}
	ki := verifChoice("key", len(keys))
	data := map[string][]byte{
		"cipher_suites":       verifBytes("suites", verifChoice("suiteslen", 4)),
		"compression_methods": {0},
	}
	var extids []byte
	if verifThorough() {
		extids = append(extids, verifBytes("extid", 2)...)
	}
	extids = append(extids, byte(ids[ki]>>8), byte(ids[ki]))
	data["extensions"] = extids
	if verifBool("present") {
		v := verifBytes("val", verifChoice("vallen", 7))
		if keys[ki] == "key_share" {
			for i := 3; i < len(v); i += 4 {
				verifAssume(v[i] < 3)
			}
		}
		data[keys[ki]] = v
	}
	spec := &ClientHelloSpec{}
	err := spec.ImportTLSClientHello(data)
	_ = err
	verifReach("end")
}

//verif:harness C07 import_map_any_extension unwind=400 paths=200000 wall=900
//verif:expect end
//verif:doc ImportTLSClientHello with an extensions list holding one arbitrary 16-bit id (every per-extension key present with a well-formed value): error or spec, never a panic — covers every branch of the id switch, including ids without a data key.
func zzC07ImportMapAnyExtension() {
	data := map[string][]byte{
		"cipher_suites": {0x13, 0x01}, "compression_methods": {0}, "extensions": verifBytes("extid", 2),
		"pt_fmts": {1, 0}, "sig_algs": {0, 2, 4, 3}, "supported_versions": {3, 4}, "curves": {0, 2, 0, 29}, "alpn": {0, 3, 2, 'h', '2'},
		"key_share": {0, 29, 0, 2}, "psk_key_exchange_modes": {1}, "cert_compression_algs": {0, 2}, "record_size_limit": {64, 1},
	}
	spec := &ClientHelloSpec{}
	err := spec.ImportTLSClientHello(data)
	_ = err
	verifReach("end")
}

// zzStubJSONUnmarshal models encoding/json.Unmarshal by its contract: it
// returns an error, or returns nil having left each destination field either
// untouched (zero) or set to an arbitrary value of its type; pointer fields may
// stay nil (absent JSON keys). Only the destination types the importers use
// are modelled; others are left at their zero value.
func zzStubJSONUnmarshal(data []byte, v any) error {
	if verifBool("json-error") {
		return errors.New("json: modelled decoding error")
	}
	switch d := v.(type) {
	case *ClientHelloSpecJSONUnmarshaler:
		if verifBool("json-has-cipher-suites") {
			d.CipherSuites = &CipherSuitesJSONUnmarshaler{cipherSuites: []uint16{verifU16("suite")}}
		}
		if verifBool("json-has-compression") {
			d.CompressionMethods = &CompressionMethodsJSONUnmarshaler{compressionMethods: []uint8{0}}
		}
		if verifBool("json-has-extensions") {
			d.Extensions = &TLSExtensionsJSONUnmarshaler{}
		}
		d.TLSVersMin = verifU16("minv")
		d.TLSVersMax = verifU16("maxv")
	case *map[string][]byte:
		if verifBool("json-map-nonnil") {
			*d = map[string][]byte{}
		}
	}
	return nil
}

//verif:harness C07 unmarshal_json_contract unwind=400
//verif:stub encoding/json.Unmarshal zzStubJSONUnmarshal
//verif:expect end
//verif:assume encoding/json.Unmarshal is replaced by its contract (the reflection-driven lexer is not encoded)
//verif:doc ClientHelloSpec.UnmarshalJSON and ImportTLSClientHelloFromJSON for every outcome the json.Unmarshal contract allows (error; any subset of top-level keys absent): error or spec, never a panic.
func zzC07UnmarshalJSONContract() {
	spec := &ClientHelloSpec{}
	if verifBool("which") {
		err := spec.UnmarshalJSON([]byte("{}"))
		_ = err
	} else {
		err := spec.ImportTLSClientHelloFromJSON([]byte("{}"))
		_ = err
	}
	verifReach("end")
}

//verif:harness C07 grease_ech_write_arbitrary_ids unwind=300
//verif:expect end
//verif:doc The C07 half of C08 grease_ech_write: the GREASE-ECH decoder (reached from FromRaw / FingerprintClientHello for any hello with an encrypted_client_hello extension) on a structurally well-formed outer ECH body with ARBITRARY 16-bit KDF and AEAD identifiers, config id, 1..2 key bytes and a payload of 1..20 bytes: returns an error or a faithful copy, never panics.
func zzC07GreaseECHWriteArbitraryIDs() { zzGreaseECHWriteBody() }
