package tls

func zzIsTLS13Suite(id uint16) bool { return id == 0x1301 || id == 0x1302 || id == 0x1303 }

func zzContainsU16(l []uint16, v uint16) bool {
	in := false
	for _, x := range l {
		in = verifOr(in, x == v)
	}
	return in
}

//verif:harness C12 check_server_hello_or_hrr unwind=200
//verif:stub (*utls.Conn).sendAlert zzStubSendAlert
//verif:expect accepted rejected
//verif:doc checkServerHelloOrHRR from an arbitrary state: the ClientHello offers three arbitrary cipher suites and a session id of 0..2 arbitrary bytes; every ServerHello field is arbitrary (slices of length 0..1, the echoed session id independently 0..2 bytes); a previous HRR suite may be set. If it returns nil the suite was offered, is a TLS 1.3 suite, equals the HRR suite if any, the session id was echoed and compression is null; on error an alert was sent and Conn.cipherSuite is untouched.
func zzC12CheckServerHelloOrHRR() {
	zzAlerts = nil
	c := &Conn{}
	hello := &clientHelloMsg{cipherSuites: []uint16{verifU16("offer"), verifU16("offer"), verifU16("offer")}}
	hello.sessionId = verifBytes("sid", verifChoice("sidlen", 3))
	sh := &serverHelloMsg{}
	verifFill("sh", sh, verifChoice("shn", 2))
	// the echoed session id has its own length, independent of the other slices
	sh.sessionId = verifBytes("server-sid", verifChoice("server-sidlen", 3))
	hs := &clientHandshakeStateTLS13{c: c, hello: hello, serverHello: sh}
	prev := verifChoice("prev", 4)
	if prev > 0 {
		hs.suite = cipherSuiteTLS13ByID(uint16(0x1300 + prev))
	}
	err := hs.checkServerHelloOrHRR()
	if err == nil {
		verifReach("accepted")
		verifAssert(zzContainsU16(hello.cipherSuites, sh.cipherSuite), "suite-was-offered")
		verifAssert(zzIsTLS13Suite(sh.cipherSuite), "suite-is-tls13")
		verifAssert(hs.suite != nil && hs.suite.id == sh.cipherSuite && c.cipherSuite == sh.cipherSuite, "state-holds-selected-suite")
		if prev > 0 {
			verifAssert(sh.cipherSuite == uint16(0x1300+prev), "same-suite-after-hrr")
		}
		verifAssert(zzBytesEq(sh.sessionId, hello.sessionId), "session-id-echoed")
		verifAssert(sh.compressionMethod == 0, "null-compression")
		verifAssert(sh.supportedVersion == VersionTLS13 && sh.vers == VersionTLS12, "versions")
		verifAssert(len(sh.alpnProtocol) == 0 && !sh.ocspStapling && !sh.ticketSupported && !sh.extendedMasterSecret && !sh.secureRenegotiationSupported && len(sh.scts) == 0 && len(sh.secureRenegotiation) == 0, "no-forbidden-extension")
	} else {
		verifReach("rejected")
		verifAssert(len(zzAlerts) > 0, "alert-sent-on-rejection")
		verifAssert(c.cipherSuite == 0, "no-suite-reported-on-rejection")
	}
}

//verif:harness C12 process_server_hello_tls13 unwind=200
//verif:stub (*utls.Conn).sendAlert zzStubSendAlert
//verif:expect accepted rejected
//verif:doc processServerHello (TLS 1.3) from an arbitrary state: two offered key shares with arbitrary groups, 0..2 PSK identities, an arbitrary cached session suite; every ServerHello field arbitrary. nil => the server share's group is one the client sent a share for, a selected PSK identity index is in range and its hash matches the suite.
func zzC12ProcessServerHelloTLS13() {
	zzAlerts = nil
	c := &Conn{}
	hello := &clientHelloMsg{keyShares: []keyShare{{group: CurveID(verifU16("ksg"))}, {group: CurveID(verifU16("ksg"))}}}
	nid := verifChoice("nids", 3)
	for i := 0; i < nid; i++ {
		hello.pskIdentities = append(hello.pskIdentities, pskIdentity{label: []byte{1}})
	}
	sh := &serverHelloMsg{}
	verifFill("sh", sh, verifChoice("shn", 2))
	hs := &clientHandshakeStateTLS13{c: c, hello: hello, serverHello: sh}
	hs.suite = cipherSuiteTLS13ByID(uint16(0x1301 + verifChoice("suite", 3)))
	if verifBool("has-session") {
		hs.session = &SessionState{cipherSuite: verifU16("sess-suite")}
	}
	err := hs.processServerHello()
	if err == nil {
		verifReach("accepted")
		g := uint16(sh.serverShare.group)
		verifAssert(g != 0 && verifOr(uint16(hello.keyShares[0].group) == g, uint16(hello.keyShares[1].group) == g), "group-has-a-sent-share")
		verifAssert(len(sh.cookie) == 0 && sh.selectedGroup == 0, "no-hrr-extension")
		if sh.selectedIdentityPresent {
			verifAssert(int(sh.selectedIdentity) < len(hello.pskIdentities), "psk-index-in-range")
			verifAssert(hs.session != nil && hs.usingPSK && c.didResume, "psk-state")
			ps := cipherSuiteTLS13ByID(hs.session.cipherSuite)
			verifAssert(ps != nil && ps.hash == hs.suite.hash, "psk-hash-matches-suite")
		} else {
			verifAssert(!hs.usingPSK && !c.didResume, "no-resumption-without-selected-identity")
		}
	} else {
		verifReach("rejected")
		verifAssert(!c.didResume, "no-resumption-reported-on-rejection")
	}
}

//verif:harness C12 pick_cipher_suite_tls12 unwind=200
//verif:stub (*utls.Conn).sendAlert zzStubSendAlert
//verif:expect accepted rejected
//verif:doc pickCipherSuite (TLS 1.0-1.2): three offered suites arbitrary, server suite arbitrary: nil => the suite was offered and is one utls implements; an unoffered suite is rejected with an alert.
func zzC12PickCipherSuiteTLS12() {
	zzAlerts = nil
	c := &Conn{config: &Config{}}
	c.vers = uint16(0x0301 + verifChoice("vers", 3))
	hello := &clientHelloMsg{cipherSuites: []uint16{verifU16("offer"), verifU16("offer"), verifU16("offer")}}
	sh := &serverHelloMsg{cipherSuite: verifU16("server-suite")}
	hs := &clientHandshakeState{c: c, hello: hello, serverHello: sh}
	err := hs.pickCipherSuite()
	if err == nil {
		verifReach("accepted")
		verifAssert(zzContainsU16(hello.cipherSuites, sh.cipherSuite), "suite-was-offered")
		verifAssert(hs.suite != nil && hs.suite.id == sh.cipherSuite && c.cipherSuite == sh.cipherSuite, "state-holds-selected-suite")
	} else {
		verifReach("rejected")
		verifAssert(len(zzAlerts) > 0, "alert-sent-on-rejection")
		verifAssert(c.cipherSuite == 0, "no-suite-reported-on-rejection")
	}
}

//verif:harness C12 check_alpn unwind=200
//verif:expect accepted rejected
//verif:doc checkALPN: two offered protocol names (1..2 arbitrary bytes each), server protocol of 0..2 arbitrary bytes, QUIC flag arbitrary: nil => the protocol is empty (non-QUIC) or one of the offered names.
func zzC12CheckALPN() {
	p1 := verifString("p1", 1+verifChoice("p1len", 2))
	p2 := verifString("p2", 1+verifChoice("p2len", 2))
	sp := verifString("sp", verifChoice("splen", 3))
	quic := verifBool("quic")
	err := checkALPN([]string{p1, p2}, sp, quic)
	if err == nil {
		verifReach("accepted")
		if len(sp) == 0 {
			verifAssert(!quic, "quic-requires-alpn")
		} else {
			verifAssert(verifOr(sp == p1, sp == p2), "protocol-was-offered")
		}
	} else {
		verifReach("rejected")
	}
}
