package tls

import (
	"io"

	"github.com/andybalholm/brotli"
)

// zzArbitraryHandshakeMessage: a handshake message with an arbitrary type byte
// (or a fixed one), a correct uint24 length and an arbitrary body of n bytes.
func zzArbitraryMessage(typ byte, n int) []byte {
	body := verifBytes("body", n)
	return zzCat([]byte{typ}, zzVec24(body))
}

//verif:harness C33 client_decodes_hostile_messages unwind=600 paths=400000 wall=1200
//verif:stub (*utls.Conn).sendAlert zzStubSendAlert
//verif:expect end
//verif:doc Conn.unmarshalHandshakeMessage on the client side (isClient, negotiated version 1.2 or 1.3 symbolic) for every handshake type byte (symbolic: covers the uTLS-specific dispatch of types 8 and 25) and an arbitrary body of every length 0..6 (quick) / 0..9 (thorough): returns a message or an error, never panics, loops are bounded.
func zzC33ClientDecodesHostileMessages() {
	zzAlerts = nil
	c := &Conn{isClient: true, config: &Config{}}
	c.vers = VersionTLS12 + uint16(verifChoice("vers13", 2))
	max := 7
	if verifThorough() {
		max = 10
	}
	n := verifChoice("n", max)
	typ := verifU8("type")
	data := zzArbitraryMessage(typ, n)
	m, err := c.unmarshalHandshakeMessage(data, nil)
	verifAssert((m == nil) == (err != nil), "message-or-error")
	verifReach("end")
}

//verif:harness C33 server_hello_extensions_hostile unwind=600 paths=400000 wall=1200
//verif:expect end
//verif:doc serverHelloMsg.unmarshal and encryptedExtensionsMsg.unmarshal (incl. utlsUnmarshal) on a well-formed fixed part followed by an arbitrary extension block of every length 0..7 (quick) / 0..10 (thorough): never panic.
func zzC33ServerHelloExtensionsHostile() {
	max := 8
	if verifThorough() {
		max = 11
	}
	n := verifChoice("n", max)
	ext := verifBytes("ext", n)
	if verifBool("encrypted-extensions") {
		msg := zzCat([]byte{8}, zzVec24(zzVec16(ext)))
		var m encryptedExtensionsMsg
		_ = m.unmarshal(msg)
	} else {
		body := zzCat([]byte{3, 3}, make([]byte, 32), []byte{0}, []byte{0x13, 0x01}, []byte{0}, zzVec16(ext))
		msg := zzCat([]byte{2}, zzVec24(body))
		var m serverHelloMsg
		_ = m.unmarshal(msg)
	}
	verifReach("end")
}

//verif:harness C33 decompress_cert_allocation unwind=400
//verif:stub (*utls.Conn).sendAlert zzStubSendAlert
//verif:stub github.com/andybalholm/brotli.NewReader zzStubBrotliNewReader
//verif:stub (*github.com/andybalholm/brotli.Reader).Read zzStubBrotliRead
//verif:expect end
//verif:doc decompressCert with an arbitrary 24-bit declared uncompressed length: the buffer it allocates never exceeds the certificate-message limit (maxHandshakeCertificateMsg + header); larger declarations are refused with an alert before allocating.
func zzC33DecompressCertAllocation() {
	zzAlerts = nil
	c := &Conn{config: &Config{}}
	uc := &UConn{Conn: c, certCompressionAlgs: []CertCompressionAlgo{CertCompressionBrotli}}
	hs := &clientHandshakeStateTLS13{c: c, uconn: uc}
	l := verifU32("declared")
	verifAssume(l < 1<<24)
	// sizes are concrete in the engine: small declarations are enumerated, every
	// declaration above the limit is one symbolic case; (8, limit] is not explored
	verifAssume(l <= 8 || l > maxHandshakeCertificateMsg)
	zzDecompContent, zzDecompPos = nil, 0
	verifAllocLimit(maxHandshakeCertificateMsg + 4)
	_, err := hs.decompressCert(utlsCompressedCertificateMsg{algorithm: uint16(CertCompressionBrotli), uncompressedLength: l, compressedCertificateMessage: []byte{1}})
	verifAllocLimit(0)
	if l > maxHandshakeCertificateMsg {
		verifAssert(err != nil && len(zzAlerts) > 0, "oversized-declaration-refused")
	}
	verifReach("end")
}

// A decompression bomb: the decoder yields bytes for as long as it is asked.
var zzBombDelivered, zzBombBudget int

func zzStubBombRead(r *brotli.Reader, p []byte) (int, error) {
	if zzBombDelivered > zzBombBudget {
		// already reported; end the stream so that the run terminates
		return 0, io.EOF
	}
	zzBombDelivered += len(p)
	verifAssert(zzBombDelivered <= zzBombBudget, "decompressor-not-drained-beyond-declared-length")
	for i := range p {
		p[i] = 0
	}
	return len(p), nil
}

//verif:harness C33 decompress_cert_bomb_not_drained unwind=400
//verif:stub (*utls.Conn).sendAlert zzStubSendAlert
//verif:stub github.com/andybalholm/brotli.NewReader zzStubBrotliNewReader
//verif:stub (*github.com/andybalholm/brotli.Reader).Read zzStubBombRead
//verif:expect end
//verif:assume the decoder is an endless stream (a decompression bomb): it fills every buffer it is handed and never reports EOF
//verif:doc decompressCert against a decompression bomb with a declared length of 0..8 bytes: the client pulls at most the declared length plus a 1 KiB probe from the decoder before it gives up with bad_certificate; draining the stream to find out how much longer it is counts as a violation.
func zzC33DecompressCertBombNotDrained() {
	zzAlerts = nil
	c := &Conn{config: &Config{}}
	uc := &UConn{Conn: c, certCompressionAlgs: []CertCompressionAlgo{CertCompressionBrotli}}
	hs := &clientHandshakeStateTLS13{c: c, uconn: uc}
	l := uint32(verifChoice("declared", 9))
	zzBombDelivered, zzBombBudget = 0, int(l)+1024
	_, err := hs.decompressCert(utlsCompressedCertificateMsg{algorithm: uint16(CertCompressionBrotli), uncompressedLength: l, compressedCertificateMessage: []byte{1}})
	verifAssert(err != nil && len(zzAlerts) > 0, "bomb-refused-with-alert")
	verifReach("end")
}

//verif:harness C33 post_handshake_and_parameters_hostile unwind=400 paths=200000 wall=900
//verif:stub (*utls.Conn).sendAlert zzStubSendAlert
//verif:expect end
//verif:assume the resumption PSK derivation is opaque
//verif:doc uTLS-reachable client paths fed with ARBITRARY parsed server messages (every field arbitrary, slices of length 0..2): handleNewSessionTicket from an arbitrary connection state (suite arbitrary, resumption secret present or not, cache present or not, lifetime from {0, 1, 7 d, 7 d + 1, 2^32-1}), and utlsReadServerParameters with arbitrary EncryptedExtensions (ALPS code point, settings, ALPN) on a connection with or without configured ApplicationSettings: each returns normally (nil or error), never panics.
func zzC33PostHandshakeAndParametersHostile() {
	zzAlerts = nil
	n := verifChoice("slice-len", 3)
	switch verifChoice("path", 2) {
	case 0:
		cfg := &Config{ServerName: "a.example", Time: zzFixedTime}
		if verifBool("cache") {
			cfg.ClientSessionCache = zzEmptyCache{}
		}
		cfg.SessionTicketsDisabled = verifBool("tickets-disabled")
		c := &Conn{config: cfg, isClient: verifBool("is-client"), vers: VersionTLS13, cipherSuite: verifU16("suite")}
		if verifBool("has-resumption-secret") {
			c.resumptionSecret = []byte{1}
		}
		msg := &newSessionTicketMsgTLS13{}
		verifFill("ticket", msg, n)
		msg.lifetime = []uint32{0, 1, 604800, 604801, 0xffffffff}[verifChoice("lifetime", 5)]
		_ = c.handleNewSessionTicket(msg)
	case 1:
		cfg := &Config{ServerName: "a.example"}
		if verifBool("has-alps") {
			cfg.ApplicationSettings = map[string][]byte{"h2": {1}}
		}
		c := &Conn{config: cfg, isClient: true, vers: VersionTLS12 + uint16(verifChoice("vers13", 2))}
		if verifBool("alpn-negotiated") {
			c.clientProtocol = "h2"
		}
		uc := &UConn{Conn: c}
		hs := &clientHandshakeStateTLS13{c: c, uconn: uc}
		ee := &encryptedExtensionsMsg{}
		verifFill("ee", ee, n)
		_ = hs.utlsReadServerParameters(ee)
	}
	verifReach("end")
}
