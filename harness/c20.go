package tls

// zzStaticCache is a ClientSessionCache holding nothing (Get misses).
type zzEmptyCache struct{}

func (zzEmptyCache) Get(string) (*ClientSessionState, bool) { return nil, false }
func (zzEmptyCache) Put(string, *ClientSessionState)        {}

func zzPanicOK(msg string) bool {
	// documented assertion panics carry a "tls:" message (uAssert / panic(fmt.Sprintf("tls: ...")))
	return msg == "" || (len(msg) >= 6 && msg[:6] == "s:tls:") || (len(msg) >= 19 && msg[:19] == "s:InitializeByUtls ")
}

//verif:harness C20 session_api_call_orders unwind=4000 instrs=600000000 paths=200000 wall=1200
//verif:stub (*math/rand.Rand).Shuffle zzStubShuffle
//verif:expect end injected-ticket injected-psk
//verif:doc Bounded history exploration of the public session API on a UConn: every sequence of 0..3 (quick) / 0..4 (thorough) calls drawn from {SetSessionCache, BuildHandshakeStateWithoutSession, SetSessionTicketExtension (initialized, symbolic 3-byte ticket), SetPskExtension (FakePreSharedKeyExtension with a symbolic identity and binder), BuildHandshakeState} followed by BuildHandshakeState, for a parrot with a session-ticket extension, one with a pre_shared_key extension and one with neither: no call ever panics with a runtime error (only errors or documented "tls:" assertion panics); whenever a setter succeeded before the hello was built and the final build succeeds, the wire hello passes the strict grammar and carries the injected ticket / identities and binders byte for byte.
func zzC20SessionAPICallOrders() {
	ids := []ClientHelloID{HelloChrome_100, HelloChrome_100_PSK, HelloIOS_11_1}
	id := ids[verifChoice("parrot", len(ids))]
	cfg := zzConfig("example.com")
	cfg.OmitEmptyPsk = true
	conn := &zzRecConn{}
	uc := UClient(conn, cfg, id)
	maxOps := 3
	if verifThorough() {
		maxOps = 4
	}
	nops := verifChoice("nops", maxOps+1)
	ticket := verifBytes("ticket", 3)
	label := verifBytes("psk-label", 2)
	binder := make([]byte, 32)
	binder[0] = verifU8("binder0")
	ticketSet, pskSet, built, dead := false, false, false, false
	for i := 0; i < nops && !dead; i++ {
		var msg string
		switch verifChoice("op", 5) {
		case 0:
			msg = verifPanicMessage(func() { uc.SetSessionCache(zzEmptyCache{}) })
		case 1:
			msg = verifPanicMessage(func() {
				if uc.BuildHandshakeStateWithoutSession() == nil {
					// note: does not mark the hello as built for the session controller
				}
			})
		case 2:
			var err error
			msg = verifPanicMessage(func() {
				err = uc.SetSessionTicketExtension(&SessionTicketExtension{Ticket: ticket, Session: &SessionState{version: VersionTLS12, ticket: ticket}, Initialized: true})
			})
			if msg == "" && err == nil && !built {
				ticketSet, pskSet = true, false
			}
		case 3:
			var err error
			msg = verifPanicMessage(func() {
				err = uc.SetPskExtension(&FakePreSharedKeyExtension{Identities: []PskIdentity{{Label: label, ObfuscatedTicketAge: 5}}, Binders: [][]byte{binder}})
			})
			if msg == "" && err == nil && !built {
				pskSet, ticketSet = true, false
			}
		case 4:
			var err error
			msg = verifPanicMessage(func() { err = uc.BuildHandshakeState() })
			if msg == "" && err == nil {
				built = true
			}
			if err != nil {
				dead = true
			}
		}
		verifAssertClass(zzPanicOK(msg), "only-documented-panics", msg)
		if msg != "" {
			dead = true // a documented assertion fired: the connection object is not used further
		}
	}
	if dead {
		verifReach("end")
		verifReach("injected-ticket")
		verifReach("injected-psk")
		return
	}
	var ferr error
	fmsg := verifPanicMessage(func() { ferr = uc.BuildHandshakeState() })
	verifAssertClass(zzPanicOK(fmsg), "only-documented-panics", fmsg)
	if fmsg == "" && ferr == nil {
		h, ok := zzCheckHelloSyntax(uc.HandshakeState.Hello.Raw, "session-api")
		if ok {
			if ticketSet {
				if b, has := h.ext(35); has {
					verifReach("injected-ticket")
					verifAssert(zzBytesEq(b, ticket), "injected-ticket-on-the-wire")
				}
			}
			if pskSet {
				if b, has := h.ext(41); has {
					verifReach("injected-psk")
					want := zzCat(zzVec16(zzCat(zzVec16(label), []byte{0, 0, 0, 5})), zzVec16(zzVec8(binder)))
					verifAssert(zzBytesEq(b, want), "injected-psk-on-the-wire")
				}
			}
		}
	}
	verifReach("end")
}
