package tls

// zzStaticCache is a ClientSessionCache holding nothing (Get misses).
type zzEmptyCache struct{}

func (zzEmptyCache) Get(string) (*ClientSessionState, bool) { return nil, false }
func (zzEmptyCache) Put(string, *ClientSessionState)        {}

func zzPanicOK(msg string) bool {
	// documented assertion panics carry a "tls:" message (uAssert / panic(fmt.Sprintf("tls: ...")))
	return msg == "" || (len(msg) >= 6 && msg[:6] == "s:tls:") || (len(msg) >= 19 && msg[:19] == "s:InitializeByUtls ")
}

//verif:harness C20 session_api_call_orders unwind=4000 instrs=600000000 paths=200000 wall=1200
//verif:stub (*math/rand.Rand).Shuffle zzStubShuffleIdentity
//verif:expect end injected-ticket injected-psk
//verif:doc Bounded history exploration of the public session API on a UConn: every sequence of 0..3 (quick) / 0..4 (thorough) calls drawn from {SetSessionCache, BuildHandshakeStateWithoutSession, SetSessionTicketExtension (initialized, symbolic 3-byte ticket), SetPskExtension (FakePreSharedKeyExtension with a symbolic identity and binder), BuildHandshakeState} followed by BuildHandshakeState, for a parrot with a session-ticket extension, one with a pre_shared_key extension and one with neither: no call ever panics with a runtime error (only errors or documented "tls:" assertion panics); whenever a setter succeeded before the hello was built and the final build succeeds, the wire hello passes the strict grammar and carries the injected ticket / identities and binders byte for byte.
func zzC20SessionAPICallOrders() {
	ids := []ClientHelloID{HelloChrome_100, HelloChrome_100_PSK, HelloIOS_11_1}
	id := ids[verifChoice("parrot", len(ids))]
	cfg := zzConfig("example.com")
	cfg.OmitEmptyPsk = true
	conn := &zzRecConn{}
	uc := UClient(conn, cfg, id)
	maxOps := 3
	if verifThorough() {
		maxOps = 4
	}
	nops := verifChoice("nops", maxOps+1)
	ticket := verifBytes("ticket", 3)
	label := verifBytes("psk-label", 2)
	binder := make([]byte, 32)
	binder[0] = verifU8("binder0")
	ticketSet, pskSet, built, dead := false, false, false, false
	for i := 0; i < nops && !dead; i++ {
		var msg string
		switch verifChoice("op", 5) {
		case 0:
			msg = verifPanicMessage(func() { uc.SetSessionCache(zzEmptyCache{}) })
		case 1:
			msg = verifPanicMessage(func() {
				if uc.BuildHandshakeStateWithoutSession() == nil {
					// note: does not mark the hello as built for the session controller
				}
			})
		case 2:
			var err error
			msg = verifPanicMessage(func() {
				err = uc.SetSessionTicketExtension(&SessionTicketExtension{Ticket: ticket, Session: &SessionState{version: VersionTLS12, ticket: ticket}, Initialized: true})
			})
			if msg == "" && err == nil && !built {
				ticketSet, pskSet = true, false
			}
		case 3:
			var err error
			msg = verifPanicMessage(func() {
				err = uc.SetPskExtension(&FakePreSharedKeyExtension{Identities: []PskIdentity{{Label: label, ObfuscatedTicketAge: 5}}, Binders: [][]byte{binder}})
			})
			if msg == "" && err == nil && !built {
				pskSet, ticketSet = true, false
			}
		case 4:
			var err error
			msg = verifPanicMessage(func() { err = uc.BuildHandshakeState() })
			if msg == "" && err == nil {
				built = true
			}
			if err != nil {
				dead = true
			}
		}
		verifAssertClass(zzPanicOK(msg), "only-documented-panics", msg)
		if msg != "" {
			dead = true // a documented assertion fired: the connection object is not used further
		}
	}
	if dead {
		verifReach("end")
		verifReach("injected-ticket")
		verifReach("injected-psk")
		return
	}
	var ferr error
	fmsg := verifPanicMessage(func() { ferr = uc.BuildHandshakeState() })
	verifAssertClass(zzPanicOK(fmsg), "only-documented-panics", fmsg)
	if fmsg == "" && ferr == nil {
		h, ok := zzCheckHelloSyntax(uc.HandshakeState.Hello.Raw, "session-api")
		if ok {
			if ticketSet {
				if b, has := h.ext(35); has {
					verifReach("injected-ticket")
					verifAssert(zzBytesEq(b, ticket), "injected-ticket-on-the-wire")
				}
			}
			if pskSet {
				if b, has := h.ext(41); has {
					verifReach("injected-psk")
					want := zzCat(zzVec16(zzCat(zzVec16(label), []byte{0, 0, 0, 5})), zzVec16(zzVec8(binder)))
					verifAssert(zzBytesEq(b, want), "injected-psk-on-the-wire")
				}
			}
		}
	}
	verifReach("end")
}

// zzPskEditAfterBuild: shared body of the C01 / C20 harnesses on edits made
// after BuildHandshakeState to a hello that carries a real pre_shared_key.
func zzPskEditAfterBuild() {
	var ids []ClientHelloID
	for _, p := range zzPredefinedParrots() {
		if zzSpecHasPSK(p.id) {
			ids = append(ids, p.id)
		}
	}
	id := ids[verifChoice("parrot", len(ids))]
	cfg := zzConfig("example.com")
	cfg.ClientSessionCache = zzEmptyCache{}
	conn := &zzRecConn{}
	uc := UClient(conn, cfg, id)
	label := verifBytes("identity", 2)
	psk := &UtlsPreSharedKeyExtension{}
	sess := &SessionState{version: VersionTLS13, cipherSuite: TLS_AES_128_GCM_SHA256, secret: []byte{9}, ticket: label}
	psk.InitializeByUtls(sess, []byte{1, 2}, verifBytes("binder-key", 2), []PskIdentity{{Label: label, ObfuscatedTicketAge: verifU32("age")}})
	verifAssert(uc.SetPskExtension(psk) == nil, "set-psk-extension")
	explicitBuild := verifBool("explicit-build-first")
	if explicitBuild {
		verifAssert(uc.BuildHandshakeState() == nil, "first-build-succeeds")
	}
	edit := verifChoice("edit", 3)
	var newRandom []byte
	var newSuite uint16
	switch edit {
	case 1:
		// documented edits are those made between BuildHandshakeState and Handshake
		if explicitBuild {
			newRandom = verifBytes("new-random", 32)
			verifAssert(uc.SetClientRandom(newRandom) == nil, "set-client-random")
		}
	case 2:
		if explicitBuild {
			newSuite = 0x00ff
			uc.HandshakeState.Hello.CipherSuites = append(uc.HandshakeState.Hello.CipherSuites, newSuite)
		}
	}
	zzBinderOut, zzBinderTranscript = nil, nil
	herr := uc.Handshake()
	verifAssert(herr != nil, "handshake-stops-at-eof")
	wire, ok := zzRecordPayload(conn, 0)
	verifAssert(ok, "client-hello-written")
	if !ok {
		return
	}
	raw := uc.HandshakeState.Hello.Raw
	verifAssert(len(raw) == len(wire) && zzBytesEq(raw, wire), "wire-equals-hello-raw")
	h, okh := zzCheckHelloSyntax(wire, "psk-edit")
	if !okh {
		return
	}
	if newRandom != nil {
		verifAssert(zzBytesEq(h.random, newRandom), "edited-random-on-the-wire")
	}
	if newSuite != 0 {
		verifAssert(len(h.suites) > 0 && h.suites[len(h.suites)-1] == newSuite, "edited-suites-on-the-wire")
	}
	verifAssert(len(h.exts) > 0 && h.exts[len(h.exts)-1].typ == 41, "pre-shared-key-is-last")
	b, _ := h.ext(41)
	verifAssert(len(b) >= 35 && zzBinderOut != nil && zzBytesEq(b[len(b)-32:], zzBinderOut), "wire-binder-is-the-last-computed-one")
	// the binder must cover the hello that is on the wire, truncated before the binders list (2+1+32 bytes)
	verifAssert(len(wire) >= 35 && len(zzBinderTranscript) == len(wire)-35 && zzBytesEq(zzBinderTranscript, wire[:len(wire)-35]), "binder-computed-over-the-wire-hello")
	verifAssert(zzBytesEq(b[2:2+2+len(label)][2:], label), "identity-on-the-wire-as-given")
	verifReach("end")
}

//verif:harness C20 psk_binder_covers_final_hello unwind=4000 instrs=600000000 paths=40000 wall=900
//verif:stub (*math/rand.Rand).Shuffle zzStubShuffleIdentity
//verif:stub (crypto.Hash).New zzStubHashNew
//verif:stub (*utls.cipherSuiteTLS13).finishedHash zzStubFinishedHash
//verif:expect end
//verif:assume transcript hash and the Finished MAC are uninterpreted functions (the binder is a function of the bytes hashed); the peer never answers
//verif:doc For every parrot with a pre_shared_key extension: a TLS 1.3 session injected through SetPskExtension (UtlsPreSharedKeyExtension, symbolic identity and binder key), optionally an explicit BuildHandshakeState, then no edit / SetClientRandom with 32 symbolic bytes / a suite appended to Hello.CipherSuites, then Handshake: the ClientHello record equals Hello.Raw, shows the edit, carries the identity as given, and its binder is the one computed over exactly the bytes on the wire up to the binders list (so a server holding the PSK verifies it).
func zzC20PskBinderCoversFinalHello() { zzPskEditAfterBuild() }
