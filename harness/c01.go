package tls

import (
	"crypto"
	"crypto/x509"
	"hash"
	"time"
)

func zzStubHashNew(h crypto.Hash) hash.Hash { return &zzUFHash{} }

// zzFirstRecordPayload returns the payload of the k-th handshake record the
// client wrote (records are written one per Write call by the record layer).
func zzRecordPayload(conn *zzRecConn, k int) ([]byte, bool) {
	idx := -1
	for i, w := range conn.written {
		if len(w) >= 5 && w[0] == 22 {
			idx++
			if idx == k {
				n := int(w[3])<<8 | int(w[4])
				if len(w) != 5+n {
					return nil, false
				}
				return w[5:], true
			}
		}
		_ = i
	}
	return nil, false
}

//verif:harness C01 wire_equals_inspected_hello unwind=4000 instrs=600000000 paths=400000 wall=3600
//verif:stub (*math/rand.Rand).Shuffle zzStubShuffle
//verif:expect end
//verif:doc For every predefined parrot: BuildHandshakeState, then zero or one documented edit (SetClientRandom with 32 symbolic bytes; SetSNI; a symbolic cipher suite appended to Hello.CipherSuites; Hello.SessionId replaced by symbolic bytes; a GenericExtension with symbolic id and data inserted before a trailing pre_shared_key), then Handshake on a recording connection whose peer sends nothing: the payload of the first handshake record equals HandshakeState.Hello.Raw after Handshake returns, and the reference parser sees the edit in those bytes.
func zzC01WireEqualsInspectedHello() {
	p := zzChooseParrot()
	cfg := zzConfig("example.com")
	cfg.OmitEmptyPsk = true
	uc, conn, err := zzBuild(p.id, cfg)
	if err != nil {
		verifReach("end")
		return
	}
	edit := verifChoice("edit", 6)
	var rnd, sid, gdata []byte
	var suite, gid uint16
	switch edit {
	case 1:
		rnd = verifBytes("new-random", 32)
		verifAssert(uc.SetClientRandom(rnd) == nil, "set-client-random")
	case 2:
		uc.SetSNI("edited.example")
	case 3:
		suite = verifU16("extra-suite")
		uc.HandshakeState.Hello.CipherSuites = append(uc.HandshakeState.Hello.CipherSuites, suite)
	case 4:
		sid = verifBytes("new-session-id", 32)
		uc.HandshakeState.Hello.SessionId = sid
	case 5:
		gid = 0x7b00 | uint16(verifU8("generic-id-low"))
		gdata = verifBytes("generic-data", 2)
		uc.Extensions = append(uc.Extensions, &GenericExtension{Id: gid, Data: gdata})
	}
	herr := uc.Handshake()
	verifAssertClass(herr != nil, "handshake-fails-at-eof", p.name) // the peer never answers
	pay, ok := zzRecordPayload(conn, 0)
	verifAssertClass(ok, "a-handshake-record-was-written", p.name)
	if !ok {
		verifReach("end")
		return
	}
	raw := uc.HandshakeState.Hello.Raw
	verifAssertClass(len(pay) == len(raw) && zzBytesEq(pay, raw), "wire-equals-hello-raw", p.name)
	h, why := zzRefParseClientHello(pay)
	verifAssertClass(why == "", "wire-hello-parses-strictly", p.name+":"+why)
	if why == "" {
		switch edit {
		case 1:
			verifAssertClass(zzBytesEq(h.random, rnd), "edit-visible-client-random", p.name)
		case 2:
			b, has := h.ext(0)
			verifAssertClass(has && zzBytesEq(b, zzVec16(zzCat([]byte{0}, zzVec16([]byte("edited.example"))))), "edit-visible-sni", p.name)
		case 3:
			verifAssertClass(len(h.suites) > 0 && h.suites[len(h.suites)-1] == suite, "edit-visible-cipher-suite", p.name)
		case 4:
			verifAssertClass(zzBytesEq(h.sessionID, sid), "edit-visible-session-id", p.name)
		case 5:
			found := false
			for _, e := range h.exts {
				found = verifOr(found, verifAnd(e.typ == gid, zzBytesEq(e.body, gdata)))
			}
			verifAssertClass(found, "edit-visible-extension", p.name)
		}
	}
	verifReach("end")
}

//verif:harness C01 raw_is_second_hello_after_hrr unwind=24 loopcut=1 instrs=600000000 paths=60000 wall=900
//verif:stub (*math/rand.Rand).Shuffle zzStubShuffleIdentity
//verif:stub (crypto.Hash).New zzStubHashNew
//verif:stub (*utls.prng).Read zzStubPrngRead
//verif:expect end
//verif:assume the transcript hash is an uninterpreted function; the peer's flight is scripted: one HelloRetryRequest record, then EOF
//verif:doc For TLS 1.3 parrots without PSK (thorough: all; quick: every fifth): Handshake on a connection whose peer answers with a HelloRetryRequest (for the first group listed in supported_groups that has no share; cookie absent or 2 symbolic bytes) and then closes: two ClientHello records are written, the real record layer and readHandshake run, and when Handshake returns HandshakeState.Hello.Raw equals the payload of the SECOND record.
func zzC01RawIsSecondHelloAfterHRR() {
	p := zzChooseParrotSample()
	spec, _ := zzRefSpec(p.id)
	hasKS, hasPSK := false, false
	for _, e := range spec.Extensions {
		switch e.(type) {
		case *KeyShareExtension:
			hasKS = true
		case PreSharedKeyExtension:
			hasPSK = true
		}
	}
	if !hasKS || hasPSK {
		verifReach("end")
		return
	}
	cfg := zzConfig("example.com")
	uc, conn, err := zzBuild(p.id, cfg)
	if err != nil {
		verifReach("end")
		return
	}
	h1, why := zzRefParseClientHello(uc.HandshakeState.Hello.Raw)
	if why != "" {
		verifReach("end")
		return
	}
	gb, _ := h1.ext(10)
	offered, _ := zzRefU16ListBody(gb, 2)
	kb, _ := h1.ext(51)
	shared, _, _, _ := zzKeyShareEntries(kb)
	var group uint16
	for _, g := range []uint16{23, 24, 25, 29} {
		in, sh := false, false
		for i, o := range offered {
			if !zzRefIsGREASE16Concrete(uint16(specCurve(spec, i))) && o == g {
				in = true
			}
		}
		for i, s := range shared {
			if !zzRefIsGREASE16Concrete(uint16(specShareGroup(spec, i))) && s == g {
				sh = true
			}
		}
		if in && !sh {
			group = g
			break
		}
	}
	if group == 0 {
		verifReach("end")
		return
	}
	var cookie []byte
	if verifBool("cookie") {
		cookie = verifBytes("cookie", 2)
	}
	hrr := &serverHelloMsg{vers: VersionTLS12, random: helloRetryRequestRandom, sessionId: uc.HandshakeState.Hello.SessionId, cipherSuite: TLS_AES_128_GCM_SHA256,
		supportedVersion: VersionTLS13, selectedGroup: CurveID(group), cookie: cookie}
	msg, merr := hrr.marshal()
	verifAssert(merr == nil, "hrr-marshals")
	conn.toRead = zzCat([]byte{22, 3, 3}, zzVec16(msg))
	herr := uc.Handshake()
	verifAssertClass(herr != nil, "handshake-ends-at-eof", p.name)
	second, ok := zzRecordPayload(conn, 1)
	verifAssertClass(ok, "second-client-hello-written", p.name)
	if ok {
		raw := uc.HandshakeState.Hello.Raw
		verifAssertClass(len(raw) == len(second) && zzBytesEq(raw, second), "hello-raw-is-the-second-hello", p.name)
		_, why2 := zzRefParseClientHello(second)
		verifAssertClass(why2 == "", "second-hello-parses-strictly", p.name+":"+why2)
	}
	verifReach("end")
}

func specCurve(spec ClientHelloSpec, i int) CurveID {
	for _, e := range spec.Extensions {
		if sc, ok := e.(*SupportedCurvesExtension); ok && i < len(sc.Curves) {
			return sc.Curves[i]
		}
	}
	return 0
}

func specShareGroup(spec ClientHelloSpec, i int) CurveID {
	for _, e := range spec.Extensions {
		if ks, ok := e.(*KeyShareExtension); ok && i < len(ks.KeyShares) {
			return ks.KeyShares[i].Group
		}
	}
	return 0
}

//verif:harness C01 edits_visible_with_injected_psk unwind=4000 instrs=600000000 paths=40000 wall=900
//verif:stub (*math/rand.Rand).Shuffle zzStubShuffleIdentity
//verif:stub (crypto.Hash).New zzStubHashNew
//verif:stub (*utls.cipherSuiteTLS13).finishedHash zzStubFinishedHash
//verif:expect end
//verif:assume transcript hash and the Finished MAC are uninterpreted functions; the peer never answers
//verif:doc Same scenario as C20 psk_binder_covers_final_hello, claimed here for its C01 half: with a real pre_shared_key (locked session, binders set) a documented edit made between BuildHandshakeState and Handshake is visible in the first record, which equals Hello.Raw.
func zzC01EditsVisibleWithInjectedPsk() { zzPskEditAfterBuild() }

//verif:harness C01 edits_visible_with_cached_tls12_ticket unwind=4000 instrs=600000000 paths=40000 wall=900
//verif:stub crypto/sha256.Sum256 zzStubSum256
//verif:stub (*math/rand.Rand).Shuffle zzStubShuffleIdentity
//verif:stub (*crypto/x509.Certificate).VerifyHostname zzStubVerifyHostname
//verif:stub (time.Time).Sub zzStubTimeSub
//verif:expect end
//verif:assume x509 host-name matching succeeds (stub); the cached TLS 1.2 session is valid; the peer never answers
//verif:doc For every predefined parrot with a session_ticket extension and no pre_shared_key: a ClientSessionCache holding a valid TLS 1.2 session (so the hello offers its ticket - the situation in which specs with a GetSessionID hook derive the legacy session id from the ticket), an explicit BuildHandshakeState, then Hello.SessionId replaced by 32 symbolic bytes or SetClientRandom, then Handshake: the first record equals Hello.Raw, carries the cached ticket and shows the edit.
func zzC01EditsVisibleWithCachedTLS12Ticket() {
	p := zzChooseParrot()
	spec, _ := zzRefSpec(p.id)
	hasTicket, hasPSK := false, false
	var suite uint16
	for _, e := range spec.Extensions {
		switch e.(type) {
		case *SessionTicketExtension:
			hasTicket = true
		case PreSharedKeyExtension:
			hasPSK = true
		}
	}
	for _, s := range spec.CipherSuites {
		if cs := cipherSuiteByID(s); cs != nil && !zzIsTLS13Suite(s) {
			suite = s
			break
		}
	}
	if !hasTicket || hasPSK || suite == 0 {
		verifReach("end")
		return
	}
	zzCacheKeys, zzCachePuts, zzHostnameChecks = nil, nil, nil
	zzHostnameOK = true
	cfg := zzConfig("example.com")
	cfg.ClientSessionCache = zzScriptedCache{}
	now := zzFixedTime()
	cert := &x509.Certificate{NotAfter: now.Add(time.Hour)}
	ticket := []byte{0xde, 0xad, 0xbe, 0xef}
	zzCachedSession = &ClientSessionState{session: &SessionState{version: VersionTLS12, cipherSuite: suite, extMasterSecret: true, createdAt: uint64(now.Unix()), secret: []byte{1}, ticket: ticket,
		peerCertificates: []*x509.Certificate{cert}, verifiedChains: [][]*x509.Certificate{{cert}}}}
	conn := &zzRecConn{}
	uc := UClient(conn, cfg, p.id)
	if uc.BuildHandshakeState() != nil {
		verifReach("end")
		return
	}
	var newSID, newRandom []byte
	if verifBool("edit-session-id") {
		newSID = verifBytes("new-session-id", 32)
		uc.HandshakeState.Hello.SessionId = newSID
	} else {
		newRandom = verifBytes("new-random", 32)
		verifAssert(uc.SetClientRandom(newRandom) == nil, "set-client-random")
	}
	herr := uc.Handshake()
	verifAssertClass(herr != nil, "handshake-stops-at-eof", p.name)
	wire, ok := zzRecordPayload(conn, 0)
	verifAssertClass(ok, "client-hello-written", p.name)
	if !ok {
		return
	}
	raw := uc.HandshakeState.Hello.Raw
	verifAssertClass(len(raw) == len(wire) && zzBytesEq(raw, wire), "wire-equals-hello-raw", p.name)
	h, why := zzRefParseClientHello(wire)
	verifAssertClass(why == "", "hello-parses-strictly", p.name+":"+why)
	if why != "" {
		return
	}
	if tb, has := h.ext(35); has {
		verifAssertClass(len(tb) == 0 || zzBytesEq(tb, ticket), "ticket-is-the-cached-one", p.name)
	}
	if newSID != nil {
		verifAssertClass(zzBytesEq(h.sessionID, newSID), "edited-session-id-on-the-wire", p.name)
	}
	if newRandom != nil {
		verifAssertClass(zzBytesEq(h.random, newRandom), "edited-random-on-the-wire", p.name)
	}
	verifReach("end")
}

// SHA-256 as an uninterpreted function (specs with a GetSessionID hook hash the ticket).
func zzStubSum256(data []byte) [32]byte {
	var out [32]byte
	copy(out[:], verifUFBytes("sha256", 32, data))
	return out
}
