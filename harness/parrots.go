package tls

import "strings"

// ---- shared: choose a parrot and a Config shape ----

func zzChooseParrot() zzParrot {
	ps := zzPredefinedParrots()
	return ps[verifChoice("parrot", len(ps))]
}

var zzNameShapes = []string{
	"example.com",
	"",
	"192.0.2.7",
	"example.com.",
	"[2001:db8::1]",
	"fe80::1%eth0",
	"a." + "bbbbbbbbbbbbbbbbbbbbbbbbbbbbbbbbbbbbbbbbbbbbbbbbbbbbbbbbbbbbbbb." + "ccccccccccccccccccccccccccccccccccccccccccccccccccccccccccccccc." + "ddddddddddddddddddddddddddddddddddddddddddddddddddddddddddddddd." + "eeeeeeeeeeeeeeeeeeeeeeeeeeeeeeeeeeeeeeeeeeeeeeeeeeeeeeeeeeeee", // 253 bytes
}

// zzWantSNI is the independent expectation for the SNI of a Config name
// (RFC 6066: DNS host names only, no trailing dot, no IP literals).
var zzWantSNI = []string{"example.com", "", "", "example.com", "", "", zzNameShapes[6]}

func zzHasPSK(h *zzRefHello) bool { _, ok := h.ext(41); return ok }

func zzSpecHasPSK(id ClientHelloID) bool {
	spec, err := zzRefSpec(id)
	if err != nil {
		return false
	}
	for _, e := range spec.Extensions {
		if _, ok := e.(PreSharedKeyExtension); ok {
			return true
		}
	}
	return false
}

//verif:harness C02 parrots_valid unwind=4000 instrs=400000000 paths=300000 wall=3600
//verif:stub (*math/rand.Rand).Shuffle zzStubShuffle
//verif:expect end
//verif:assume library-generated key shares have the documented size; (*math/rand.Rand).Shuffle only calls swap(i,j) with 0<=j<=i<n
//verif:doc Every predefined parrot (table generated from the source) x Config shapes (ServerName: DNS name, empty, IPv4, trailing dot, bracketed IPv6, zone id, 253 bytes; NextProtos none/two; OmitEmptyPsk) with every random byte symbolic: BuildHandshakeState either fails (only allowed: empty PSK without OmitEmptyPsk) or Hello.Raw passes the strict reference ClientHello grammar and per-extension body grammars, with the SNI the reference expects.
func zzC02ParrotsValid() {
	p := zzChooseParrot()
	ni := 0
	if verifThorough() {
		ni = verifChoice("name", len(zzNameShapes))
	} else {
		ni = verifChoice("name", 3)
	}
	cfg := zzConfig(zzNameShapes[ni])
	if verifBool("alpn") {
		cfg.NextProtos = []string{"h2", "http/1.1"}
	}
	cfg.OmitEmptyPsk = verifBool("omitpsk")
	uc, _, err := zzBuild(p.id, cfg)
	if err != nil {
		verifAssertClass(err == ErrEmptyPsk && zzSpecHasPSK(p.id) && !cfg.OmitEmptyPsk, "build-error-only-for-empty-psk", p.name)
		verifReach("end")
		return
	}
	h, ok := zzCheckHelloSyntax(uc.HandshakeState.Hello.Raw, p.name)
	if ok {
		sni, has := h.ext(0)
		if zzWantSNI[ni] == "" {
			verifAssertClass(!has, "no-sni-for-non-dns-name", p.name)
		} else if has {
			want := zzVec16(zzCat([]byte{0}, zzVec16([]byte(zzWantSNI[ni]))))
			verifAssertClass(zzBytesEq(sni, want), "sni-is-host-name", p.name)
		}
		verifAssertClass(!zzHasPSK(&h), "no-psk-without-session", p.name)
	}
	verifReach("end")
}

//verif:harness C03 parrot_matches_spec unwind=4000 instrs=400000000 paths=400000 wall=3600
//verif:stub (*math/rand.Rand).Shuffle zzStubShuffleOneSwap
//verif:expect end
//verif:doc Every predefined parrot: the wire hello equals an independent reference encoding of a fresh zzRefSpec(id) — legacy_version min(max,1.2), cipher suites and compression, extension code-point sequence (same multiset with GREASE/padding/PSK fixed for shuffling parrots) and every extension body — modulo exactly the per-connection material C03 lists. All random bytes symbolic; Config.NextProtos unset or {http/1.1}; Config.MinVersion/MaxVersion unset, MaxVersion=1.1, 1.0..1.2, or MinVersion=1.3 (the caller's bounds must not alter the parrot's bytes); for shuffling parrots the shuffle performs zero or one arbitrary legal swap.
func zzC03ParrotMatchesSpec() {
	p := zzChooseParrot()
	cfg := zzConfig("example.com")
	cfg.OmitEmptyPsk = true
	// neither the caller's NextProtos nor the caller's version bounds may change
	// what a parrot sends
	switch verifChoice("caller-config", 5) {
	case 1:
		cfg.NextProtos = []string{"http/1.1"}
	case 2:
		cfg.MaxVersion = VersionTLS11
	case 3:
		cfg.MinVersion, cfg.MaxVersion = VersionTLS10, VersionTLS12
	case 4:
		cfg.MinVersion = VersionTLS13
	}
	uc, _, err := zzBuild(p.id, cfg)
	verifAssertClass(err == nil, "build-succeeds", p.name)
	if err != nil {
		verifReach("end")
		return
	}
	h, why := zzRefParseClientHello(uc.HandshakeState.Hello.Raw)
	verifAssertClass(why == "", "hello-parses-strictly", p.name+":"+why)
	if why != "" {
		verifReach("end")
		return
	}
	spec, serr := zzRefSpec(p.id)
	verifAssertClass(serr == nil, "spec-available", p.name)
	// legacy_version
	maxV := spec.TLSVersMax
	if maxV == 0 {
		maxV = VersionTLS12
		for _, e := range spec.Extensions {
			if sv, ok := e.(*SupportedVersionsExtension); ok {
				for _, v := range sv.Versions {
					if !zzRefIsGREASE16(v) && v > maxV {
						maxV = v
					}
				}
			}
		}
	}
	wantLegacy := maxV
	if wantLegacy > VersionTLS12 {
		wantLegacy = VersionTLS12
	}
	verifAssertClass(h.legacyVersion == wantLegacy, "legacy-version", p.name)
	verifAssertClass(zzU16ListMatches(h.suites, spec.CipherSuites), "cipher-suites", p.name)
	wantComp := spec.CompressionMethods
	if len(wantComp) == 0 {
		wantComp = []byte{0}
	}
	verifAssertClass(zzBytesEq(h.compression, wantComp), "compression-methods", p.name)
	// expected extension sequence: spec extensions that are present on the wire
	// (empty PSK omitted, SNI always present for example.com)
	var want []zzSpecExt
	for _, e := range spec.Extensions {
		d, ok := zzDescribeExt(e)
		verifAssertClass(ok, "extension-type-known-to-reference", p.name)
		if !ok {
			verifReach("end")
			return
		}
		if d.kind == zzKindPSK {
			continue
		}
		want = append(want, d)
	}
	// padding may be absent depending on length
	shuffled := strings.Contains(p.name, "Shuf") || p.id == HelloChrome_106_Shuffle || p.id == HelloChrome_120 || p.id == HelloChrome_120_PQ || p.id == HelloChrome_131 || p.id == HelloChrome_133 || p.id == HelloChrome_115_PQ || p.id == HelloChrome_115_PQ_PSK
	// the padding extension is legitimately absent when the length policy says so (C05)
	wirePad := false
	for _, we := range h.exts {
		if we.typ == 21 {
			wirePad = true
		}
	}
	if !wirePad {
		var w2 []zzSpecExt
		for _, d := range want {
			if d.kind != zzKindPadding {
				w2 = append(w2, d)
			}
		}
		want = w2
	}
	verifAssertClass(len(want) == len(h.exts), "extension-count-equals-spec", p.name)
	used := make([]bool, len(want))
	for k, we := range h.exts {
		// find the spec entry this wire extension realises: positional for
		// non-shuffling parrots and for the positionally invariant GREASE and
		// padding extensions, by code point otherwise
		idx := -1
		fixed := k < len(want) && (want[k].kind == zzKindGREASE || want[k].kind == zzKindPadding)
		if !shuffled || fixed {
			if k < len(want) {
				idx = k
			}
		} else {
			for j := range want {
				if !used[j] && want[j].typ == we.typ && want[j].kind != zzKindGREASE && want[j].kind != zzKindPadding {
					idx = j
					break
				}
			}
		}
		verifAssertClass(idx >= 0, "wire-extension-in-spec", p.name)
		if idx < 0 {
			continue
		}
		used[idx] = true
		d := want[idx]
		switch d.kind {
		case zzKindExact:
			verifAssertClass(we.typ == d.typ, "extension-order", p.name)
			verifAssertClass(zzBytesEq(we.body, d.body), "extension-body-equals-spec", p.name)
		case zzKindGREASE:
			verifAssertClass(zzRefIsGREASE16(we.typ), "grease-extension-codepoint", p.name)
		case zzKindSNI:
			verifAssertClass(we.typ == 0, "extension-order", p.name)
		case zzKindGroups:
			verifAssertClass(we.typ == d.typ, "extension-order", p.name)
			vs, ok := zzRefU16ListBody(we.body, 2)
			verifAssertClass(ok && zzU16ListMatches(vs, d.u16s), "supported-groups-equal-spec", p.name)
		case zzKindVersions:
			verifAssertClass(we.typ == d.typ, "extension-order", p.name)
			vs, ok := zzRefU16ListBody(we.body, 1)
			verifAssertClass(ok && zzU16ListMatches(vs, d.u16s), "supported-versions-equal-spec", p.name)
		case zzKindKeyShare:
			verifAssertClass(we.typ == d.typ, "extension-order", p.name)
			gs, _, _, ok := zzKeyShareEntries(we.body)
			verifAssertClass(ok && zzU16ListMatches(gs, d.u16s), "key-share-groups-equal-spec", p.name)
		case zzKindPadding:
			verifAssertClass(we.typ == 21, "extension-order", p.name)
		default:
			verifAssertClass(we.typ == d.typ, "extension-order", p.name)
		}
	}
	// every non-optional spec extension appeared
	for j := range want {
		if !used[j] && want[j].kind != zzKindPadding {
			verifAssertClass(false, "spec-extension-on-wire", p.name)
		}
	}
	verifReach("end")
}

// zzRefIsGREASE16Concrete: for code points that are concrete on this path.
func zzRefIsGREASE16Concrete(v uint16) bool { return v&0x0f0f == 0x0a0a && v>>8 == v&0xff }

//verif:harness C04 wire_grease unwind=4000 instrs=400000000 paths=200000 wall=3000
//verif:stub (*math/rand.Rand).Shuffle zzStubShuffle
//verif:expect end
//verif:doc Every predefined parrot, all random bytes symbolic: on the wire the (at most two) GREASE extensions have different reserved code points, GREASE cipher/group/version values are reserved, and the key_share GREASE group equals the supported_groups GREASE group.
func zzC04WireGrease() {
	p := zzChooseParrot()
	cfg := zzConfig("example.com")
	cfg.OmitEmptyPsk = true
	uc, _, err := zzBuild(p.id, cfg)
	if err != nil {
		verifReach("end")
		return
	}
	spec, _ := zzRefSpec(p.id)
	h, why := zzRefParseClientHello(uc.HandshakeState.Hello.Raw)
	verifAssertClass(why == "", "hello-parses-strictly", p.name+":"+why)
	if why != "" {
		verifReach("end")
		return
	}
	// wire GREASE extensions: code points that are none of the spec's
	// non-GREASE code points
	var greaseTypes []uint16
	var known []uint16
	nSpecGrease := 0
	for _, e := range spec.Extensions {
		if d, ok := zzDescribeExt(e); ok {
			if d.kind == zzKindGREASE {
				nSpecGrease++
			} else {
				known = append(known, d.typ)
			}
		}
	}
	for _, we := range h.exts {
		isKnown := false
		for _, k := range known {
			isKnown = verifOr(isKnown, we.typ == k)
		}
		if !isKnown {
			greaseTypes = append(greaseTypes, we.typ)
		}
	}
	verifAssertClass(len(greaseTypes) == nSpecGrease, "grease-extension-count-equals-spec", p.name)
	for _, t := range greaseTypes {
		verifAssertClass(zzRefIsGREASE16(t), "grease-extension-reserved", p.name)
	}
	if len(greaseTypes) == 2 {
		verifAssertClass(greaseTypes[0] != greaseTypes[1], "two-grease-extensions-differ", p.name)
	}
	verifAssertClass(len(greaseTypes) <= 2, "at-most-two-grease-extensions", p.name)
	// GREASE group / cipher / version values sit where the spec has the placeholder
	var sgGrease, ksGrease []uint16
	for _, e := range spec.Extensions {
		switch x := e.(type) {
		case *SupportedCurvesExtension:
			if b, ok := h.ext(10); ok {
				if vs, ok := zzRefU16ListBody(b, 2); ok && len(vs) == len(x.Curves) {
					for i, c := range x.Curves {
						if zzRefIsGREASE16Concrete(uint16(c)) {
							verifAssertClass(zzRefIsGREASE16(vs[i]), "grease-group-reserved", p.name)
							sgGrease = append(sgGrease, vs[i])
						}
					}
				}
			}
		case *KeyShareExtension:
			if b, ok := h.ext(51); ok {
				if gs, _, _, ok := zzKeyShareEntries(b); ok && len(gs) == len(x.KeyShares) {
					for i, ks := range x.KeyShares {
						if zzRefIsGREASE16Concrete(uint16(ks.Group)) {
							ksGrease = append(ksGrease, gs[i])
						}
					}
				}
			}
		case *SupportedVersionsExtension:
			if b, ok := h.ext(43); ok {
				if vs, ok := zzRefU16ListBody(b, 1); ok && len(vs) == len(x.Versions) {
					for i, v := range x.Versions {
						if zzRefIsGREASE16Concrete(v) {
							verifAssertClass(zzRefIsGREASE16(vs[i]), "grease-version-reserved", p.name)
						}
					}
				}
			}
		}
	}
	if len(sgGrease) > 0 && len(ksGrease) > 0 {
		verifAssertClass(sgGrease[0] == ksGrease[0], "key-share-grease-equals-supported-groups-grease", p.name)
	}
	if len(h.suites) == len(spec.CipherSuites) {
		for i, s := range spec.CipherSuites {
			if zzRefIsGREASE16Concrete(s) {
				verifAssertClass(zzRefIsGREASE16(h.suites[i]), "grease-cipher-reserved", p.name)
			}
		}
	}
	verifReach("end")
}

//verif:harness C05 parrot_padding_length unwind=4000 instrs=400000000 paths=300000 wall=3600
//verif:stub (*math/rand.Rand).Shuffle zzStubShuffleIdentity
//verif:expect end
//verif:doc Every predefined parrot whose spec carries a BoringSSL-style padding extension x SNI lengths (12 lengths spread over 1..253; thorough tier additionally every length 1..253, without the rebuild step) x optionally a rebuild after SetSNI with a name of length 1/60/150/253 (the padding extension is marshalled twice), all random bytes symbolic: with U = handshake message length without the padding extension, 255 < U < 512 => total 512 (or a 1-byte body when fewer than 5 bytes are missing), otherwise no padding extension; body all zero; at most one padding extension.
func zzC05ParrotPaddingLength() {
	p := zzChooseParrot()
	spec, _ := zzRefSpec(p.id)
	hasPad := false
	for _, e := range spec.Extensions {
		if _, ok := e.(*UtlsPaddingExtension); ok {
			hasPad = true
		}
	}
	if !hasPad {
		verifReach("no-padding-parrot")
		return
	}
	var l int
	every := verifThorough() && verifBool("every-sni-length")
	if every {
		l = 1 + verifChoice("snilen", 253)
	} else {
		ls := []int{1, 2, 9, 40, 90, 100, 101, 120, 170, 200, 252, 253}
		l = ls[verifChoice("snilen", len(ls))]
	}
	cfg := zzConfig(strings.Repeat("a", l))
	cfg.OmitEmptyPsk = true
	uc, _, err := zzBuild(p.id, cfg)
	verifAssertClass(err == nil, "build-succeeds", p.name)
	if err != nil {
		return
	}
	// optionally the hello is rebuilt with a server name of another length (the
	// same padding extension object is marshalled a second time): the rule
	// applies to the hello that results
	if !every && verifBool("rebuild-with-other-sni") {
		l2s := []int{1, 60, 150, 253}
		uc.SetSNI(strings.Repeat("b", l2s[verifChoice("snilen2", len(l2s))]))
		err = uc.BuildHandshakeState()
		verifAssertClass(err == nil, "rebuild-succeeds", p.name)
		if err != nil {
			return
		}
	}
	raw := uc.HandshakeState.Hello.Raw
	h, why := zzRefParseClientHello(raw)
	verifAssertClass(why == "", "hello-parses-strictly", p.name+":"+why)
	if why != "" {
		return
	}
	padTotal := 0
	npad := 0
	for _, e := range h.exts {
		if e.typ == 21 {
			npad++
			padTotal = 4 + len(e.body)
			for _, x := range e.body {
				verifAssertClass(x == 0, "padding-body-zero", p.name)
			}
		}
	}
	verifAssertClass(npad <= 1, "padding-not-duplicated", p.name)
	u := len(raw) - padTotal
	if u > 255 && u < 512 {
		verifAssertClass(npad == 1, "padded-inside-window", p.name)
		if 512-u >= 5 {
			verifAssertClass(len(raw) == 512, "padded-to-512", p.name)
		} else {
			verifAssertClass(padTotal == 5, "one-byte-padding-body", p.name)
		}
	} else {
		verifAssertClass(npad == 0, "no-padding-outside-window", p.name)
	}
	verifReach("end")
}

//verif:harness C18 key_shares_backed unwind=4000 instrs=400000000 paths=20000
//verif:stub (*math/rand.Rand).Shuffle zzStubShuffleIdentity
//verif:expect end
//verif:assume crypto/ecdh and crypto/mlkem produce keys of their documented sizes with arbitrary bytes
//verif:doc Every predefined parrot: each non-GREASE key share on the wire has the size its group requires, carries exactly the public bytes of a key generated during this ApplyPreset (never a constant), hybrid shares concatenate in the order of their code point, and KeyShareKeys retains a private key for every share sent; QUIC-less connections send a 32-byte random session id; client random is RNG output.
func zzC18KeySharesBacked() {
	p := zzChooseParrot()
	cfg := zzConfig("example.com")
	cfg.OmitEmptyPsk = true
	uc, _, err := zzBuild(p.id, cfg)
	if err != nil {
		verifReach("end")
		return
	}
	h, why := zzRefParseClientHello(uc.HandshakeState.Hello.Raw)
	verifAssertClass(why == "", "hello-parses-strictly", p.name+":"+why)
	if why != "" {
		verifReach("end")
		return
	}
	keys := uc.HandshakeState.State13.KeyShareKeys
	if b, ok := h.ext(51); ok {
		gs, ls, ks, ok := zzKeyShareEntries(b)
		verifAssertClass(ok, "key-share-parses", p.name)
		classical := 0
		var specShares []KeyShare
		if sp, e := zzRefSpec(p.id); e == nil {
			for _, x := range sp.Extensions {
				if kse, ok := x.(*KeyShareExtension); ok {
					specShares = kse.KeyShares
				}
			}
		}
		verifAssertClass(len(specShares) == len(gs), "key-share-count-equals-spec", p.name)
		for i := range gs {
			if i < len(specShares) && zzRefIsGREASE16Concrete(uint16(specShares[i].Group)) {
				continue // GREASE share
			}
			want := 0
			switch gs[i] {
			case 29:
				want = 32
			case 23:
				want = 65
			case 24:
				want = 97
			case 25:
				want = 133
			case 0x11ec, 0x6399:
				want = 1216
			}
			verifAssertClass(want != 0 && ls[i] == want, "key-share-size", p.name)
			if want == 0 || ls[i] != want {
				continue
			}
			switch gs[i] {
			case 29, 23, 24, 25:
				classical++
				backed := keys != nil && keys.Ecdhe != nil && zzBytesEq(ks[i], keys.Ecdhe.PublicKey().Bytes())
				if classical == 1 {
					verifAssertClass(backed, "first-classical-share-backed-by-retained-key", p.name)
				} else {
					verifAssertClass(backed, "every-share-backed-by-retained-key", "only-first-classical-key-retained")
				}
			case 0x11ec:
				okb := keys != nil && keys.Mlkem != nil && keys.MlkemEcdhe != nil &&
					zzBytesEq(ks[i][:1184], keys.Mlkem.EncapsulationKey().Bytes()) && zzBytesEq(ks[i][1184:], keys.MlkemEcdhe.PublicKey().Bytes())
				verifAssertClass(okb, "hybrid-share-backed-by-retained-keys", p.name)
			case 0x6399:
				okb := keys != nil && keys.Mlkem != nil && keys.MlkemEcdhe != nil &&
					zzBytesEq(ks[i][:32], keys.MlkemEcdhe.PublicKey().Bytes()) && zzBytesEq(ks[i][32:], keys.Mlkem.EncapsulationKey().Bytes())
				verifAssertClass(okb, "hybrid-share-backed-by-retained-keys", p.name)
			}
		}
	}
	verifAssertClass(len(h.sessionID) == 32, "session-id-32-bytes", p.name)
	verifReach("end")
}

//verif:harness C16 grease_ech_on_wire unwind=4000 instrs=400000000 paths=20000
//verif:stub (*math/rand.Rand).Shuffle zzStubShuffleIdentity
//verif:expect end
//verif:assume HPKE SetupSender returns a 32-byte encapsulated key with arbitrary content
//verif:doc Every predefined parrot whose spec carries a GREASE ECH extension (no real ECH config): the wire extension is a well-formed outer ECH extension, (KDF, AEAD) and payload length come from the spec's candidates (+16-byte tag), the encapsulated key is 32 bytes, and a second marshal (the HelloRetryRequest path) emits identical bytes.
func zzC16GreaseECHOnWire() {
	p := zzChooseParrot()
	spec, _ := zzRefSpec(p.id)
	var g *GREASEEncryptedClientHelloExtension
	for _, e := range spec.Extensions {
		if x, ok := e.(*GREASEEncryptedClientHelloExtension); ok {
			g = x
		}
	}
	if g == nil {
		verifReach("no-grease-ech-parrot")
		return
	}
	cfg := zzConfig("example.com")
	cfg.OmitEmptyPsk = true
	uc, _, err := zzBuild(p.id, cfg)
	verifAssertClass(err == nil, "build-succeeds", p.name)
	if err != nil {
		return
	}
	h, why := zzRefParseClientHello(uc.HandshakeState.Hello.Raw)
	verifAssertClass(why == "", "hello-parses-strictly", p.name+":"+why)
	if why != "" {
		return
	}
	b, ok := h.ext(0xfe0d)
	verifAssertClass(ok, "ech-extension-present", p.name)
	if !ok {
		return
	}
	verifAssertClass(zzRefCheckExtBody(0xfe0d, b) == "", "outer-ech-grammar", p.name)
	verifAssertClass(b[0] == 0, "type-outer", p.name)
	kdf := uint16(b[1])<<8 | uint16(b[2])
	aead := uint16(b[3])<<8 | uint16(b[4])
	in := len(g.CandidateCipherSuites) == 0 // default suite when no candidates
	for _, c := range g.CandidateCipherSuites {
		in = verifOr(in, verifAnd(c.KdfId == kdf, c.AeadId == aead))
	}
	verifAssertClass(in, "suite-from-candidates", p.name)
	verifAssertClass(int(b[6])<<8|int(b[7]) == 32, "enc-32-bytes", p.name)
	pl := int(b[40])<<8 | int(b[41])
	cands := g.CandidatePayloadLens
	if len(cands) == 0 {
		cands = []uint16{128}
	}
	okl := false
	for _, c := range cands {
		if pl == int(c)+16 {
			okl = true
		}
	}
	verifAssertClass(okl, "payload-is-candidate-plus-tag", p.name)
	// HRR path: marshalling again must resend identical extension bytes
	first := append([]byte{}, b...)
	verifAssertClass(uc.MarshalClientHelloNoECH() == nil, "second-marshal-succeeds", p.name)
	h2, why2 := zzRefParseClientHello(uc.HandshakeState.Hello.Raw)
	verifAssertClass(why2 == "", "second-hello-parses", p.name)
	if why2 == "" {
		b2, _ := h2.ext(0xfe0d)
		verifAssertClass(zzBytesEq(first, b2), "identical-bytes-on-second-marshal", p.name)
	}
	verifReach("end")
}
