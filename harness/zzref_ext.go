package tls

// Independent view of a spec's extensions: code point, reference body encoding
// from the struct fields (RFC grammars), and which parts are per-connection
// material that C03/C06 allow to differ.

const (
	zzKindExact    = 0 // body must equal the reference encoding
	zzKindGREASE   = 1 // GREASE extension: code point varies (reserved), body fixed
	zzKindSNI      = 2 // value is the connection's server name
	zzKindKeyShare = 3 // groups fixed, key bytes per connection
	zzKindPadding  = 4 // length per connection, body zero
	zzKindECH      = 5 // GREASE ECH: sizes fixed by candidates, bytes per connection
	zzKindPSK      = 6 // per connection
	zzKindTicket   = 7 // per connection
	zzKindGroups   = 8 // list with GREASE placeholders
	zzKindVersions = 9 // list with GREASE placeholders
	zzKindOpaque   = 10
)

type zzSpecExt struct {
	typ  uint16
	kind int
	body []byte   // zzKindExact / GREASE body
	u16s []uint16 // groups / versions / key-share groups (placeholders kept)
}

func zzProtoEnc(ps []string) []byte {
	var enc []byte
	for _, p := range ps {
		enc = append(enc, byte(len(p)))
		enc = append(enc, p...)
	}
	return enc
}

func zzSigs(ss []SignatureScheme) []byte {
	var out []byte
	for _, s := range ss {
		out = append(out, byte(s>>8), byte(s))
	}
	return out
}

// zzDescribeExt maps an extension object of a spec to its reference view.
// ok=false means the harness has no reference for this type (reported, not
// silently skipped).
func zzDescribeExt(e TLSExtension) (d zzSpecExt, ok bool) {
	switch x := e.(type) {
	case *SNIExtension:
		return zzSpecExt{typ: 0, kind: zzKindSNI}, true
	case *StatusRequestExtension:
		return zzSpecExt{typ: 5, body: []byte{1, 0, 0, 0, 0}}, true
	case *SupportedCurvesExtension:
		var g []uint16
		for _, c := range x.Curves {
			g = append(g, uint16(c))
		}
		return zzSpecExt{typ: 10, kind: zzKindGroups, u16s: g}, true
	case *SupportedPointsExtension:
		return zzSpecExt{typ: 11, body: zzVec8(x.SupportedPoints)}, true
	case *SignatureAlgorithmsExtension:
		return zzSpecExt{typ: 13, body: zzVec16(zzSigs(x.SupportedSignatureAlgorithms))}, true
	case *SignatureAlgorithmsCertExtension:
		return zzSpecExt{typ: 50, body: zzVec16(zzSigs(x.SupportedSignatureAlgorithms))}, true
	case *FakeDelegatedCredentialsExtension:
		return zzSpecExt{typ: 34, body: zzVec16(zzSigs(x.SupportedSignatureAlgorithms))}, true
	case *ALPNExtension:
		return zzSpecExt{typ: 16, body: zzVec16(zzProtoEnc(x.AlpnProtocols))}, true
	case *ApplicationSettingsExtension:
		return zzSpecExt{typ: 17513, body: zzVec16(zzProtoEnc(x.SupportedProtocols))}, true
	case *ApplicationSettingsExtensionNew:
		return zzSpecExt{typ: 17613, body: zzVec16(zzProtoEnc(x.SupportedProtocols))}, true
	case *StatusRequestV2Extension:
		return zzSpecExt{typ: 17, body: []byte{0, 7, 2, 0, 4, 0, 0, 0, 0}}, true
	case *SCTExtension:
		return zzSpecExt{typ: 18}, true
	case *ExtendedMasterSecretExtension:
		return zzSpecExt{typ: 23}, true
	case *NPNExtension:
		return zzSpecExt{typ: 13172}, true
	case *FakeChannelIDExtension:
		if x.OldExtensionID {
			return zzSpecExt{typ: 30031}, true
		}
		return zzSpecExt{typ: 30032}, true
	case *GenericExtension:
		return zzSpecExt{typ: x.Id, body: x.Data}, true
	case *UtlsGREASEExtension:
		return zzSpecExt{typ: 0x0a0a, kind: zzKindGREASE}, true
	case *UtlsPaddingExtension:
		return zzSpecExt{typ: 21, kind: zzKindPadding}, true
	case *UtlsCompressCertExtension:
		var b []byte
		for _, a := range x.Algorithms {
			b = append(b, byte(a>>8), byte(a))
		}
		return zzSpecExt{typ: 27, body: zzVec8(b)}, true
	case *KeyShareExtension:
		var g []uint16
		for _, ks := range x.KeyShares {
			g = append(g, uint16(ks.Group))
		}
		return zzSpecExt{typ: 51, kind: zzKindKeyShare, u16s: g}, true
	case *PSKKeyExchangeModesExtension:
		return zzSpecExt{typ: 45, body: zzVec8(x.Modes)}, true
	case *SupportedVersionsExtension:
		return zzSpecExt{typ: 43, kind: zzKindVersions, u16s: append([]uint16{}, x.Versions...)}, true
	case *CookieExtension:
		return zzSpecExt{typ: 44, body: zzVec16(x.Cookie)}, true
	case *RenegotiationInfoExtension:
		return zzSpecExt{typ: 0xff01, body: zzVec8(x.RenegotiatedConnection)}, true
	case *FakeRecordSizeLimitExtension:
		return zzSpecExt{typ: 28, body: zzU16(x.Limit)}, true
	case *FakeTokenBindingExtension:
		return zzSpecExt{typ: 24, body: zzCat([]byte{x.MajorVersion, x.MinorVersion}, zzVec8(x.KeyParameters))}, true
	case *SessionTicketExtension:
		return zzSpecExt{typ: 35, kind: zzKindTicket}, true
	case *GREASEEncryptedClientHelloExtension:
		return zzSpecExt{typ: 0xfe0d, kind: zzKindECH}, true
	case *UtlsPreSharedKeyExtension, *FakePreSharedKeyExtension:
		return zzSpecExt{typ: 41, kind: zzKindPSK}, true
	case *QUICTransportParametersExtension:
		return zzSpecExt{typ: 57, kind: zzKindOpaque}, true
	}
	return zzSpecExt{}, false
}

func zzBytesEq(a, b []byte) bool {
	if len(a) != len(b) {
		return false
	}
	eq := true
	for i := range a {
		eq = verifAnd(eq, a[i] == b[i])
	}
	return eq
}

// zzU16ListMatches: wire list equals spec list where spec GREASE placeholders
// match any reserved GREASE value (all placeholders the same value g).
func zzU16ListMatches(wire []uint16, spec []uint16) bool {
	if len(wire) != len(spec) {
		return false
	}
	ok := true
	for i := range spec {
		if zzRefIsGREASE16(spec[i]) {
			ok = verifAnd(ok, zzRefIsGREASE16(wire[i]))
		} else {
			ok = verifAnd(ok, wire[i] == spec[i])
		}
	}
	return ok
}

// zzKeyShareGroups parses a key_share body into (group, keyLen) pairs.
func zzKeyShareEntries(body []byte) (groups []uint16, lens []int, keys [][]byte, ok bool) {
	if len(body) < 2 {
		return nil, nil, nil, false
	}
	b := body[2:]
	for len(b) > 0 {
		if len(b) < 4 {
			return nil, nil, nil, false
		}
		g := uint16(b[0])<<8 | uint16(b[1])
		l := int(b[2])<<8 | int(b[3])
		if len(b) < 4+l {
			return nil, nil, nil, false
		}
		groups = append(groups, g)
		lens = append(lens, l)
		keys = append(keys, b[4:4+l])
		b = b[4+l:]
	}
	return groups, lens, keys, true
}
