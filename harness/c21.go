package tls

import (
	"errors"
	"io"

	"github.com/andybalholm/brotli"
	"github.com/klauspost/compress/zstd"
)

// The decompressors are replaced by ANY io.Reader obeying the io.Reader
// contract over a hidden decompressed content: arbitrary chunking, EOF either
// together with the last bytes or on the following call.
var zzDecompContent []byte
var zzDecompPos int
var zzDecompReads int
var zzZlibHeaderErr bool

func zzContractRead(p []byte) (int, error) {
	zzDecompReads++
	rem := len(zzDecompContent) - zzDecompPos
	if rem == 0 {
		return 0, io.EOF
	}
	if len(p) == 0 {
		return 0, nil
	}
	max := rem
	if len(p) < max {
		max = len(p)
	}
	n := 1 + verifChoice("chunk", max)
	copy(p, zzDecompContent[zzDecompPos:zzDecompPos+n])
	zzDecompPos += n
	if zzDecompPos == len(zzDecompContent) && verifBool("eof-with-last-bytes") {
		return n, io.EOF
	}
	return n, nil
}

type zzContractReader struct{}

func (zzContractReader) Read(p []byte) (int, error) { return zzContractRead(p) }
func (zzContractReader) Close() error               { return nil }

func zzStubBrotliNewReader(src io.Reader) *brotli.Reader          { return &brotli.Reader{} }
func zzStubBrotliRead(r *brotli.Reader, p []byte) (int, error)    { return zzContractRead(p) }
func zzStubZlibNewReader(r io.Reader) (io.ReadCloser, error) {
	if verifBool("zlib-header-error") {
		zzZlibHeaderErr = true
		return nil, errors.New("zlib: invalid header")
	}
	return zzContractReader{}, nil
}
func zzStubZstdNewReader(r io.Reader, opts ...zstd.DOption) (*zstd.Decoder, error) {
	return &zstd.Decoder{}, nil
}
func zzStubZstdRead(d *zstd.Decoder, p []byte) (int, error) { return zzContractRead(p) }
func zzStubZstdClose(d *zstd.Decoder)                       {}

//verif:harness C21 decompress_cert_contract unwind=400 paths=400000 wall=3000
//verif:stub (*utls.Conn).sendAlert zzStubSendAlert
//verif:stub github.com/andybalholm/brotli.NewReader zzStubBrotliNewReader
//verif:stub (*github.com/andybalholm/brotli.Reader).Read zzStubBrotliRead
//verif:stub compress/zlib.NewReader zzStubZlibNewReader
//verif:stub github.com/klauspost/compress/zstd.NewReader zzStubZstdNewReader
//verif:stub (*github.com/klauspost/compress/zstd.Decoder).Read zzStubZstdRead
//verif:stub (*github.com/klauspost/compress/zstd.Decoder).Close zzStubZstdClose
//verif:expect recovered aborted
//verif:assume the brotli/zlib/zstd decoders are replaced by an arbitrary io.Reader obeying the io.Reader contract over the decompressed content (the decoders themselves are not encoded)
//verif:doc decompressCert with: advertised algorithms any subset of {brotli, zlib, zstd}; server algorithm an arbitrary 16-bit value; a valid certificate message as content (4 bytes: empty list; thorough tier also a list with one certificate of 1..2 arbitrary bytes, 10..11 bytes), possibly followed by 1..2 extra bytes or truncated by 1..2 bytes; declared length = the valid message's length; every chunking the io.Reader contract allows. Success => the algorithm was advertised, the decompressed content has exactly the declared length and the returned message is typeCertificate||uint24(len)||content; a length mismatch (shorter or longer) or an unadvertised algorithm => error and a bad_certificate alert.
func zzC21DecompressCertContract() {
	zzAlerts = nil
	c := &Conn{config: &Config{}}
	uc := &UConn{Conn: c}
	oneCert := verifThorough() && verifBool("one-certificate")
	if oneCert {
		// the longer message is explored with all three algorithms advertised
		uc.certCompressionAlgs = []CertCompressionAlgo{CertCompressionBrotli, CertCompressionZlib, CertCompressionZstd}
	} else {
		if verifBool("adv-brotli") {
			uc.certCompressionAlgs = append(uc.certCompressionAlgs, CertCompressionBrotli)
		}
		if verifBool("adv-zlib") {
			uc.certCompressionAlgs = append(uc.certCompressionAlgs, CertCompressionZlib)
		}
		if verifBool("adv-zstd") {
			uc.certCompressionAlgs = append(uc.certCompressionAlgs, CertCompressionZstd)
		}
	}
	alg := verifU16("server-alg")
	valid := []byte{0, 0, 0, 0} // empty request context, empty certificate_list
	if oneCert {
		// a certificate_list with one entry of 1..2 arbitrary bytes and no extensions
		cert := verifBytes("cert", 1+verifChoice("cert-len", 2))
		valid = zzCat([]byte{0}, zzVec24(zzCat(zzVec24(cert), []byte{0, 0})))
	}
	declared := len(valid)
	actual := declared - 2 + verifChoice("actual-len", 5) // declared-2 .. declared+2
	content := make([]byte, actual)
	copy(content, valid)
	for i := declared; i < actual; i++ {
		content[i] = verifU8("extra")
	}
	zzDecompContent, zzDecompPos, zzDecompReads, zzZlibHeaderErr = content, 0, 0, false
	hs := &clientHandshakeStateTLS13{c: c, uconn: uc}
	m := utlsCompressedCertificateMsg{algorithm: alg, uncompressedLength: uint32(declared), compressedCertificateMessage: []byte{1, 2, 3}}
	msg, err := hs.decompressCert(m)
	advertised := false
	for _, a := range uc.certCompressionAlgs {
		advertised = verifOr(advertised, uint16(a) == alg)
	}
	if err == nil {
		verifReach("recovered")
		verifAssert(advertised, "algorithm-was-advertised")
		verifAssertClass(actual == declared, "accepts-only-exact-declared-length", "longer-content-accepted")
		verifAssert(msg != nil, "message-returned")
		if msg != nil {
			raw, merr := msg.marshal()
			verifAssert(merr == nil && zzBytesEq(raw, zzCat([]byte{11}, zzVec24(valid))), "recovered-message-is-the-certificate-message")
		}
	} else {
		verifReach("aborted")
		verifAssert(len(zzAlerts) > 0 && zzAlerts[0] == alertBadCertificate, "bad-certificate-alert")
		if advertised && actual == declared && (alg == 1 || alg == 2 || alg == 3) && !zzZlibHeaderErr {
			// a valid encoding of the right length must be recovered whatever the chunking
			verifAssertClass(false, "valid-stream-recovered-for-every-chunking", "single-read")
		}
	}
}
