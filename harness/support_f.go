package tls

import "math"

func verifF64frombits(b uint64) float64 { return math.Float64frombits(b) }
