package tls

import (
	"crypto"
	"crypto/x509"
	"errors"
)

func zzStubHashForSKX(sigType uint8, hashFunc crypto.Hash, version uint16, slices ...[]byte) []byte {
	return verifBytes("skx-digest", 32)
}

var zzSigVerifyOK bool

func zzStubVerifyHandshakeSignature(sigType uint8, pubkey crypto.PublicKey, hashFunc crypto.Hash, signed, sig []byte) error {
	if zzSigVerifyOK {
		return nil
	}
	return errors.New("zz: modelled signature failure")
}

//verif:harness C12 tls12_server_key_exchange unwind=400 paths=100000
//verif:stub utls.hashForServerKeyExchange zzStubHashForSKX
//verif:stub utls.verifyHandshakeSignature zzStubVerifyHandshakeSignature
//verif:stub (*crypto/ecdh.PrivateKey).ECDH zzStubECDH
//verif:expect accepted refused
//verif:assume signature verification has an arbitrary outcome; ECDH is opaque; the server's public key has the size of its curve (other sizes are refused by crypto/ecdh)
//verif:doc ecdheKeyAgreement.processServerKeyExchange (TLS 1.2 ECDHE) from an arbitrary client state: the ClientHello offered two arbitrary groups and two arbitrary signature algorithms; the ServerKeyExchange names an arbitrary 16-bit curve, carries a public key of that curve's size and an arbitrary signature algorithm. nil => the curve is one the client offered in supported_groups, the signature algorithm is one it offered, and the signature verified.
func zzC12TLS12ServerKeyExchange() {
	offered := []CurveID{CurveID(verifU16("offered-group")), CurveID(verifU16("offered-group"))}
	sigs := []SignatureScheme{SignatureScheme(verifU16("offered-sigalg")), SignatureScheme(verifU16("offered-sigalg"))}
	ch := &clientHelloMsg{random: make([]byte, 32), supportedCurves: offered, supportedSignatureAlgorithms: sigs}
	sh := &serverHelloMsg{random: make([]byte, 32)}
	curve := verifU16("server-curve")
	size := 1
	switch {
	case curve == uint16(X25519):
		size = 32
	case curve == uint16(CurveP256):
		size = 65
	case curve == uint16(CurveP384):
		size = 97
	case curve == uint16(CurveP521):
		size = 133
	}
	pub := make([]byte, size)
	if size > 32 {
		pub[0] = 4
	}
	alg := verifU16("server-sigalg")
	key := zzCat([]byte{3, byte(curve >> 8), byte(curve), byte(size)}, pub, zzU16(alg), zzVec16([]byte{1, 2, 3}))
	zzSigVerifyOK = verifBool("signature-verifies")
	ka := &ecdheKeyAgreement{version: VersionTLS12, isRSA: verifBool("rsa-certificate")}
	cfg := &Config{Rand: zzRandReader{}}
	err := ka.processServerKeyExchange(cfg, ch, sh, &x509.Certificate{}, &serverKeyExchangeMsg{key: key})
	if err != nil {
		verifReach("refused")
		return
	}
	verifReach("accepted")
	verifAssertClass(verifOr(offered[0] == CurveID(curve), offered[1] == CurveID(curve)), "server-curve-was-offered", "tls12-ecdhe")
	verifAssert(verifOr(sigs[0] == SignatureScheme(alg), sigs[1] == SignatureScheme(alg)), "server-signature-algorithm-was-offered")
	verifAssert(zzSigVerifyOK, "signature-verified")
}

//verif:harness C12 tls12_process_server_hello unwind=400 paths=100000
//verif:stub (*utls.Conn).sendAlert zzStubSendAlert
//verif:expect accepted refused
//verif:doc clientHandshakeState.processServerHello (TLS 1.0-1.2, first handshake, no session resumed) from an arbitrary state: three arbitrary offered suites, two offered ALPN names of 1..2 arbitrary bytes; ServerHello suite, compression method, ALPN choice (0..2 bytes) and renegotiation_info arbitrary: nil => the suite was offered and implemented, compression is null, the ALPN choice is empty or offered, renegotiation_info is empty; the values recorded on the connection are those checked ones; any refusal sends an alert.
func zzC12TLS12ProcessServerHello() {
	zzAlerts = nil
	c := &Conn{config: &Config{}, isClient: true, vers: VersionTLS12}
	offer := []uint16{verifU16("offer-suite"), verifU16("offer-suite"), verifU16("offer-suite")}
	protos := []string{string(verifBytes("alpn-a", 1+verifChoice("alpn-a-len", 2))), string(verifBytes("alpn-b", 1+verifChoice("alpn-b-len", 2)))}
	hello := &clientHelloMsg{cipherSuites: offer, alpnProtocols: protos, sessionId: []byte{1, 2}}
	var sp string
	if n := verifChoice("server-alpn-len", 3); n > 0 {
		sp = string(verifBytes("server-alpn", n))
	}
	sh := &serverHelloMsg{vers: VersionTLS12, cipherSuite: verifU16("server-suite"), compressionMethod: verifU8("server-compression"), alpnProtocol: sp,
		secureRenegotiationSupported: verifBool("reneg-supported"), sessionId: []byte{9}}
	if verifBool("reneg-data") {
		sh.secureRenegotiation = []byte{verifU8("reneg-byte")}
	}
	hs := &clientHandshakeState{c: c, hello: hello, serverHello: sh}
	resumed, err := hs.processServerHello()
	if err != nil {
		verifReach("refused")
		verifAssert(len(zzAlerts) > 0, "refusal-sends-an-alert")
		return
	}
	verifReach("accepted")
	verifAssert(!resumed, "no-session-to-resume")
	verifAssert(zzContainsU16(offer, sh.cipherSuite) && cipherSuiteByID(sh.cipherSuite) != nil && c.cipherSuite == sh.cipherSuite, "suite-offered-implemented-recorded")
	verifAssert(sh.compressionMethod == 0, "null-compression")
	verifAssert(sp == "" || sp == protos[0] || sp == protos[1], "alpn-empty-or-offered")
	verifAssert(c.clientProtocol == sp, "recorded-alpn-is-the-checked-one")
	if sh.secureRenegotiationSupported {
		verifAssert(len(sh.secureRenegotiation) == 0, "initial-handshake-renegotiation-info-empty")
	}
}

//verif:harness C12 checked_offer_is_the_wire_offer unwind=4000 instrs=600000000 paths=60000 wall=900
//verif:stub (*math/rand.Rand).Shuffle zzStubShuffleIdentity
//verif:expect end
//verif:doc Glue between the decision kernels above (which check the server's choice against the client's internal hello state) and the property (which speaks of the on-wire ClientHello): for every predefined parrot with all randomness symbolic, the internal state the kernels consult - cipher suites, compression methods, session id, supported groups, signature algorithms, ALPN protocols, key-share groups and keys, supported versions, PSK modes, certificate-compression algorithms - equals, element for element, what the strict reference parser reads from the bytes on the wire (for every such extension that is on the wire).
func zzC12CheckedOfferIsTheWireOffer() {
	p := zzChooseParrot()
	cfg := zzConfig("example.com")
	cfg.OmitEmptyPsk = true
	uc, _, err := zzBuild(p.id, cfg)
	if err != nil {
		verifReach("end")
		return
	}
	h, why := zzRefParseClientHello(uc.HandshakeState.Hello.Raw)
	verifAssertClass(why == "", "hello-parses-strictly", p.name+":"+why)
	if why != "" {
		return
	}
	hello := uc.HandshakeState.Hello.getPrivatePtr()
	eqU16 := func(a []uint16, b []uint16) bool {
		if len(a) != len(b) {
			return false
		}
		ok := true
		for i := range a {
			ok = verifAnd(ok, a[i] == b[i])
		}
		return ok
	}
	verifAssertClass(eqU16(hello.cipherSuites, h.suites), "state-suites-are-wire-suites", p.name)
	verifAssertClass(zzBytesEq(hello.compressionMethods, h.compression), "state-compression-is-wire-compression", p.name)
	verifAssertClass(zzBytesEq(hello.sessionId, h.sessionID), "state-session-id-is-wire-session-id", p.name)
	if b, ok := h.ext(10); ok {
		w, _ := zzRefU16ListBody(b, 2)
		var s []uint16
		for _, c := range hello.supportedCurves {
			s = append(s, uint16(c))
		}
		verifAssertClass(eqU16(s, w), "state-groups-are-wire-groups", p.name)
	}
	if b, ok := h.ext(13); ok {
		w, _ := zzRefU16ListBody(b, 2)
		var s []uint16
		for _, c := range hello.supportedSignatureAlgorithms {
			s = append(s, uint16(c))
		}
		verifAssertClass(eqU16(s, w), "state-sigalgs-are-wire-sigalgs", p.name)
	}
	if b, ok := h.ext(16); ok {
		verifAssertClass(zzBytesEq(zzVec16(zzProtoEnc(hello.alpnProtocols)), b), "state-alpn-is-wire-alpn", p.name)
	} else {
		verifAssertClass(len(hello.alpnProtocols) == 0, "state-alpn-is-wire-alpn", p.name)
	}
	if b, ok := h.ext(51); ok {
		gs, _, ks, okk := zzKeyShareEntries(b)
		same := okk && len(gs) == len(hello.keyShares)
		if same {
			for i := range gs {
				same = verifAnd(same, gs[i] == uint16(hello.keyShares[i].group))
				same = verifAnd(same, zzBytesEq(ks[i], hello.keyShares[i].data))
			}
		}
		verifAssertClass(same, "state-key-shares-are-wire-key-shares", p.name)
	} else {
		verifAssertClass(len(hello.keyShares) == 0, "state-key-shares-are-wire-key-shares", p.name)
	}
	if b, ok := h.ext(43); ok {
		w, _ := zzRefU16ListBody(b, 1)
		verifAssertClass(eqU16(hello.supportedVersions, w), "state-versions-are-wire-versions", p.name)
	}
	if b, ok := h.ext(45); ok && len(b) >= 1 {
		verifAssertClass(zzBytesEq(hello.pskModes, b[1:]), "state-psk-modes-are-wire-psk-modes", p.name)
	}
	if b, ok := h.ext(27); ok && len(b) >= 1 {
		var s []byte
		for _, a := range uc.certCompressionAlgs {
			s = append(s, byte(a>>8), byte(a))
		}
		verifAssertClass(zzBytesEq(s, b[1:]), "state-cert-compression-is-wire-cert-compression", p.name)
	} else {
		verifAssertClass(len(uc.certCompressionAlgs) == 0, "state-cert-compression-is-wire-cert-compression", p.name)
	}
	verifReach("end")
}
