package tls

import (
	"crypto"
	"crypto/x509"
	"errors"
)

func zzStubHashForSKX(sigType uint8, hashFunc crypto.Hash, version uint16, slices ...[]byte) []byte {
	return verifBytes("skx-digest", 32)
}

var zzSigVerifyOK bool

func zzStubVerifyHandshakeSignature(sigType uint8, pubkey crypto.PublicKey, hashFunc crypto.Hash, signed, sig []byte) error {
	if zzSigVerifyOK {
		return nil
	}
	return errors.New("zz: modelled signature failure")
}

//verif:harness C12 tls12_server_key_exchange unwind=400 paths=100000
//verif:stub utls.hashForServerKeyExchange zzStubHashForSKX
//verif:stub utls.verifyHandshakeSignature zzStubVerifyHandshakeSignature
//verif:stub (*crypto/ecdh.PrivateKey).ECDH zzStubECDH
//verif:expect accepted refused
//verif:assume signature verification has an arbitrary outcome; ECDH is opaque; the server's public key has the size of its curve (other sizes are refused by crypto/ecdh)
//verif:doc ecdheKeyAgreement.processServerKeyExchange (TLS 1.2 ECDHE) from an arbitrary client state: the ClientHello offered two arbitrary groups and two arbitrary signature algorithms; the ServerKeyExchange names an arbitrary 16-bit curve, carries a public key of that curve's size and an arbitrary signature algorithm. nil => the curve is one the client offered in supported_groups, the signature algorithm is one it offered, and the signature verified.
func zzC12TLS12ServerKeyExchange() {
	offered := []CurveID{CurveID(verifU16("offered-group")), CurveID(verifU16("offered-group"))}
	sigs := []SignatureScheme{SignatureScheme(verifU16("offered-sigalg")), SignatureScheme(verifU16("offered-sigalg"))}
	ch := &clientHelloMsg{random: make([]byte, 32), supportedCurves: offered, supportedSignatureAlgorithms: sigs}
	sh := &serverHelloMsg{random: make([]byte, 32)}
	curve := verifU16("server-curve")
	size := 1
	switch {
	case curve == uint16(X25519):
		size = 32
	case curve == uint16(CurveP256):
		size = 65
	case curve == uint16(CurveP384):
		size = 97
	case curve == uint16(CurveP521):
		size = 133
	}
	pub := make([]byte, size)
	if size > 32 {
		pub[0] = 4
	}
	alg := verifU16("server-sigalg")
	key := zzCat([]byte{3, byte(curve >> 8), byte(curve), byte(size)}, pub, zzU16(alg), zzVec16([]byte{1, 2, 3}))
	zzSigVerifyOK = verifBool("signature-verifies")
	ka := &ecdheKeyAgreement{version: VersionTLS12, isRSA: verifBool("rsa-certificate")}
	cfg := &Config{Rand: zzRandReader{}}
	err := ka.processServerKeyExchange(cfg, ch, sh, &x509.Certificate{}, &serverKeyExchangeMsg{key: key})
	if err != nil {
		verifReach("refused")
		return
	}
	verifReach("accepted")
	verifAssertClass(verifOr(offered[0] == CurveID(curve), offered[1] == CurveID(curve)), "server-curve-was-offered", "tls12-ecdhe")
	verifAssert(verifOr(sigs[0] == SignatureScheme(alg), sigs[1] == SignatureScheme(alg)), "server-signature-algorithm-was-offered")
	verifAssert(zzSigVerifyOK, "signature-verified")
}

//verif:harness C12 tls12_process_server_hello unwind=400 paths=100000
//verif:stub (*utls.Conn).sendAlert zzStubSendAlert
//verif:expect accepted refused
//verif:doc clientHandshakeState.processServerHello (TLS 1.0-1.2, first handshake, no session resumed) from an arbitrary state: three arbitrary offered suites, two offered ALPN names of 1..2 arbitrary bytes; ServerHello suite, compression method, ALPN choice (0..2 bytes) and renegotiation_info arbitrary: nil => the suite was offered and implemented, compression is null, the ALPN choice is empty or offered, renegotiation_info is empty; the values recorded on the connection are those checked ones; any refusal sends an alert.
func zzC12TLS12ProcessServerHello() {
	zzAlerts = nil
	c := &Conn{config: &Config{}, isClient: true, vers: VersionTLS12}
	offer := []uint16{verifU16("offer-suite"), verifU16("offer-suite"), verifU16("offer-suite")}
	protos := []string{string(verifBytes("alpn-a", 1+verifChoice("alpn-a-len", 2))), string(verifBytes("alpn-b", 1+verifChoice("alpn-b-len", 2)))}
	hello := &clientHelloMsg{cipherSuites: offer, alpnProtocols: protos, sessionId: []byte{1, 2}}
	var sp string
	if n := verifChoice("server-alpn-len", 3); n > 0 {
		sp = string(verifBytes("server-alpn", n))
	}
	sh := &serverHelloMsg{vers: VersionTLS12, cipherSuite: verifU16("server-suite"), compressionMethod: verifU8("server-compression"), alpnProtocol: sp,
		secureRenegotiationSupported: verifBool("reneg-supported"), sessionId: []byte{9}}
	if verifBool("reneg-data") {
		sh.secureRenegotiation = []byte{verifU8("reneg-byte")}
	}
	hs := &clientHandshakeState{c: c, hello: hello, serverHello: sh}
	resumed, err := hs.processServerHello()
	if err != nil {
		verifReach("refused")
		verifAssert(len(zzAlerts) > 0, "refusal-sends-an-alert")
		return
	}
	verifReach("accepted")
	verifAssert(!resumed, "no-session-to-resume")
	verifAssert(zzContainsU16(offer, sh.cipherSuite) && cipherSuiteByID(sh.cipherSuite) != nil && c.cipherSuite == sh.cipherSuite, "suite-offered-implemented-recorded")
	verifAssert(sh.compressionMethod == 0, "null-compression")
	verifAssert(sp == "" || sp == protos[0] || sp == protos[1], "alpn-empty-or-offered")
	verifAssert(c.clientProtocol == sp, "recorded-alpn-is-the-checked-one")
	if sh.secureRenegotiationSupported {
		verifAssert(len(sh.secureRenegotiation) == 0, "initial-handshake-renegotiation-info-empty")
	}
}
