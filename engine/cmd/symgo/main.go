// symgo: bounded symbolic execution of Go SSA for the utls verification
// harnesses. See /verif/DESIGN.md.
package main

import (
	"encoding/json"
	"flag"
	"fmt"
	"go/ast"
	"go/parser"
	"go/token"
	"go/types"
	"os"
	"os/exec"
	"path/filepath"
	"regexp"
	"runtime"
	"sort"
	"strconv"
	"strings"
	"sync"
	"time"

	"golang.org/x/tools/go/packages"
	"golang.org/x/tools/go/ssa"
	"golang.org/x/tools/go/ssa/ssautil"

	"symgo/interp"
	"symgo/smt"
)

type HarnessSpec struct {
	Func     string
	Prop     string
	Name     string
	Tier     string // "quick" (runs in both tiers) or "thorough"
	Unwind   int
	MaxPaths int
	Timeout  int // per-query ms
	Stubs    [][2]string
	Expect   []string // labels that must be reached
	File     string
	Native   bool // replayable natively (no stubs)
	Doc      string
	Assumes  []string
	InstrCap int64
	WallS    int
	LoopCut  bool
}

type KnownFinding struct {
	Property string `json:"property"`
	Label    string `json:"label"`
	Class    string `json:"class"`
	What     string `json:"what"`
	Status   string `json:"status"` // "known" or "fixed"
	Commit   string `json:"commit,omitempty"`
}

var (
	flagProp    = flag.String("prop", "", "property id (e.g. C24)")
	flagTier    = flag.String("tier", "quick", "quick|thorough")
	flagRepo    = flag.String("repo", "/repo", "repository working tree")
	flagVerif   = flag.String("verif", "/verif", "verif directory")
	flagHarness = flag.String("harness", "", "run only this harness function")
	flagReplay  = flag.String("replay", "", "replay file")
	flagWorkers = flag.Int("workers", 0, "worker count (default: cores)")
	flagTrace   = flag.Bool("trace", false, "trace instructions")
	flagV       = flag.Bool("v", false, "verbose")
	flagNoNative = flag.Bool("no-native", false, "skip native replay")
	flagList    = flag.Bool("list", false, "list harnesses")
	flagConcrete = flag.String("concrete", "", "run harness concretely with inputs from this JSON file")
)

func main() {
	flag.Parse()
	os.Exit(run())
}

func parseHarnessFiles(dir string) ([]HarnessSpec, map[string]string, error) {
	files, _ := filepath.Glob(filepath.Join(dir, "*.go"))
	sort.Strings(files)
	overlayNames := map[string]string{}
	var specs []HarnessSpec
	fset := token.NewFileSet()
	for _, f := range files {
		base := filepath.Base(f)
		overlayNames[f] = "zz_verif_" + base
		af, err := parser.ParseFile(fset, f, nil, parser.ParseComments)
		if err != nil {
			return nil, nil, err
		}
		for _, d := range af.Decls {
			fd, ok := d.(*ast.FuncDecl)
			if !ok || fd.Doc == nil {
				continue
			}
			var hs *HarnessSpec
			for _, c := range fd.Doc.List {
				line := strings.TrimSpace(strings.TrimPrefix(c.Text, "//"))
				switch {
				case strings.HasPrefix(line, "verif:harness"):
					fs := strings.Fields(line)
					if len(fs) < 3 {
						return nil, nil, fmt.Errorf("%s: bad harness directive %q", f, line)
					}
					hs = &HarnessSpec{Func: fd.Name.Name, Prop: fs[1], Name: fs[2], Tier: "quick", Unwind: 64, MaxPaths: 20000, Timeout: 2500, File: f, Native: true, InstrCap: 50_000_000, WallS: 600}
					for _, kv := range fs[3:] {
						p := strings.SplitN(kv, "=", 2)
						if len(p) != 2 {
							continue
						}
						n, _ := strconv.Atoi(p[1])
						switch p[0] {
						case "tier":
							hs.Tier = p[1]
						case "unwind":
							hs.Unwind = n
						case "paths":
							hs.MaxPaths = n
						case "timeout":
							hs.Timeout = n
						case "instrs":
							hs.InstrCap = int64(n)
						case "wall":
							hs.WallS = n
						case "loopcut":
							hs.LoopCut = p[1] == "1"
						case "native":
							hs.Native = p[1] != "0" && p[1] != "false"
						}
					}
				case strings.HasPrefix(line, "verif:stub") && hs != nil:
					fs := strings.Fields(line)
					if len(fs) != 3 {
						return nil, nil, fmt.Errorf("%s: bad stub directive %q", f, line)
					}
					hs.Stubs = append(hs.Stubs, [2]string{fs[1], fs[2]})
					hs.Native = false
				case strings.HasPrefix(line, "verif:expect") && hs != nil:
					hs.Expect = append(hs.Expect, strings.Fields(line)[1:]...)
				case strings.HasPrefix(line, "verif:assume") && hs != nil:
					hs.Assumes = append(hs.Assumes, strings.TrimSpace(strings.TrimPrefix(line, "verif:assume")))
				case strings.HasPrefix(line, "verif:doc") && hs != nil:
					hs.Doc += strings.TrimSpace(strings.TrimPrefix(line, "verif:doc")) + " "
				}
			}
			if hs != nil {
				specs = append(specs, *hs)
			}
		}
	}
	return specs, overlayNames, nil
}

type loaded struct {
	prog *ssa.Program
	pkg  *ssa.Package
	tpkg *packages.Package
	loadS float64
}

func loadProgram(repo string, overlayNames map[string]string) (*loaded, error) {
	start := time.Now()
	overlay := map[string][]byte{}
	for real, virt := range overlayNames {
		b, err := os.ReadFile(real)
		if err != nil {
			return nil, err
		}
		overlay[filepath.Join(repo, virt)] = b
	}
	cfg := &packages.Config{
		Mode:    packages.LoadAllSyntax,
		Dir:     repo,
		Overlay: overlay,
		Env:     append(os.Environ(), "GOFLAGS=-mod=mod", "GOPROXY=off"),
	}
	pkgs, err := packages.Load(cfg, ".")
	if err != nil {
		return nil, err
	}
	if packages.PrintErrors(pkgs) > 0 {
		return nil, fmt.Errorf("package load errors (harness no longer compiles against the tree?)")
	}
	prog, spkgs := ssautil.AllPackages(pkgs, ssa.InstantiateGenerics)
	prog.Build()
	return &loaded{prog: prog, pkg: spkgs[0], tpkg: pkgs[0], loadS: time.Since(start).Seconds()}, nil
}

func resolveFunc(prog *ssa.Program, pkg *ssa.Package, name string) *ssa.Function {
	// forms: "pkgpath.Func", "(*pkgpath.Type).Method", "(pkgpath.Type).Method"; a
	// leading "utls." / "(*utls." abbreviates the repository package.
	name = strings.ReplaceAll(name, "utls.", pkg.Pkg.Path()+".")
	if strings.HasPrefix(name, "(") {
		end := strings.Index(name, ").")
		recv := name[1:end]
		meth := name[end+2:]
		ptr := strings.HasPrefix(recv, "*")
		recv = strings.TrimPrefix(recv, "*")
		dot := strings.LastIndex(recv, ".")
		pp, tn := recv[:dot], recv[dot+1:]
		p := prog.ImportedPackage(pp)
		if p == nil {
			return nil
		}
		tm := p.Type(tn)
		if tm == nil {
			return nil
		}
		var T types.Type = tm.Type()
		if ptr {
			T = types.NewPointer(T)
		}
		ms := prog.MethodSets.MethodSet(T)
		for i := 0; i < ms.Len(); i++ {
			if ms.At(i).Obj().Name() == meth {
				return prog.MethodValue(ms.At(i))
			}
		}
		return nil
	}
	dot := strings.LastIndex(name, ".")
	pp, fn := name[:dot], name[dot+1:]
	p := prog.ImportedPackage(pp)
	if p == nil {
		return nil
	}
	return p.Func(fn)
}

type harnessResult struct {
	Spec        HarnessSpec
	Paths       int
	ByStatus    map[string]int
	Decisions   int
	Instrs      int64
	Asserts     int
	MaxUnwind   int
	Violations  []interp.Violation
	Reached     map[string]interp.Reach
	Inconclusive []string
	Stats       smt.Stats
	StubsHit    map[string]int
	Funcs       map[string]int64
	WallS       float64
	Truncated   bool
	Samples     []string
}

func explore(m *interp.Machine, fn *ssa.Function, stubs map[string]*ssa.Function, hs HarnessSpec, workers int, thorough bool) *harnessResult {
	hr := &harnessResult{Spec: hs, ByStatus: map[string]int{}, Reached: map[string]interp.Reach{}, StubsHit: map[string]int{}, Funcs: map[string]int64{}}
	hr.Stats.ByBackend = map[string]int{}
	start := time.Now()
	var mu sync.Mutex
	cond := sync.NewCond(&mu)
	stack := []interp.WorkItem{{}}
	inflight := 0
	done := false
	deadline := start.Add(time.Duration(hs.WallS) * time.Second)

	var wg sync.WaitGroup
	for w := 0; w < workers; w++ {
		wg.Add(1)
		go func() {
			defer wg.Done()
			fb := 60000
			if !thorough {
				fb = 30000
			}
			solver := smt.NewSolver(hs.Timeout, fb)
			solver.CrossCheck = thorough
			if *flagV {
				solver.Log = os.Stderr
			}
			defer func() {
				mu.Lock()
				hr.Stats.Merge(&solver.Stats)
				mu.Unlock()
				solver.Close()
			}()
			for {
				mu.Lock()
				for len(stack) == 0 && inflight > 0 && !done {
					cond.Wait()
				}
				if done || (len(stack) == 0 && inflight == 0) {
					done = true
					cond.Broadcast()
					mu.Unlock()
					return
				}
				item := stack[len(stack)-1]
				stack = stack[:len(stack)-1]
				inflight++
				mu.Unlock()

				ctx := interp.NewCtx(solver, item)
				ctx.Unwind = hs.Unwind
				ctx.InstrCap = hs.InstrCap
				ctx.LoopCut = hs.LoopCut
				ctx.Thorough = thorough
				solver.BeginPath()
				res := m.RunPath(ctx, fn, stubs)
				solver.EndPath()

				mu.Lock()
				inflight--
				hr.Paths++
				hr.ByStatus[res.Status]++
				hr.Decisions += res.Decisions
				hr.Instrs += res.Instrs
				hr.Asserts += res.Asserts
				if res.MaxUnwind > hr.MaxUnwind {
					hr.MaxUnwind = res.MaxUnwind
				}
				for k, v := range res.StubsHit {
					hr.StubsHit[k] += v
				}
				for k, v := range res.Funcs {
					hr.Funcs[k] += v
				}
				hr.Violations = append(hr.Violations, res.Violations...)
				for _, r := range res.Reached {
					if _, ok := hr.Reached[r.Label]; !ok {
						hr.Reached[r.Label] = r
					}
				}
				switch res.Status {
				case "ok", "violation", "pruned", "loopcut":
				default:
					if len(hr.Inconclusive) < 20 {
						hr.Inconclusive = append(hr.Inconclusive, res.Status+": "+res.Detail)
					}
				}
				if res.Unknowns > 0 && res.Status == "ok" {
					// unknown feasibility answers only widen exploration; recorded
				}
				if len(hr.Samples) < 5 && res.Status == "ok" && len(res.Reached) > 0 {
					hr.Samples = append(hr.Samples, interp.FormatInputs(res.Reached[0].Inputs))
				}
				stack = append(stack, res.NewWork...)
				if hr.Paths >= hs.MaxPaths || time.Now().After(deadline) {
					if len(stack) > 0 || inflight > 0 {
						hr.Truncated = true
					}
					done = true
				}
				cond.Broadcast()
				mu.Unlock()
			}
		}()
	}
	wg.Wait()
	hr.WallS = time.Since(start).Seconds()
	return hr
}

func loadKnown(verif string) []KnownFinding {
	b, err := os.ReadFile(filepath.Join(verif, "known_findings.json"))
	if err != nil {
		return nil
	}
	var k struct {
		Findings []KnownFinding `json:"findings"`
	}
	if err := json.Unmarshal(b, &k); err != nil {
		fmt.Fprintln(os.Stderr, "known_findings.json:", err)
		return nil
	}
	return k.Findings
}

func matchKnown(kf []KnownFinding, prop, label, class string) *KnownFinding {
	for i := range kf {
		k := &kf[i]
		if k.Status != "known" || k.Property != prop || k.Label != label {
			continue
		}
		if k.Class == class || (strings.HasSuffix(k.Class, "*") && strings.HasPrefix(class, strings.TrimSuffix(k.Class, "*"))) {
			return k
		}
	}
	return nil
}

type pendingCheck struct {
	hs         HarnessSpec
	kind       string
	label      string
	viol       interp.Violation
	replayPath string
	job        *nativeJob
	fn         *ssa.Function
	stubs      map[string]*ssa.Function
}

type replayFile struct {
	Property string            `json:"property"`
	Harness  string            `json:"harness"`
	Label    string            `json:"label"`
	Class    string            `json:"class"`
	Msg      string            `json:"msg,omitempty"`
	Inputs   []interp.InputRec `json:"inputs"`
	Native   bool              `json:"native_replayable"`
}

var nativeResultRe = regexp.MustCompile(`VERIF-REPLAY (.*)`)

// nativeJob is one (harness, inputs) pair to run against the real build.
type nativeJob struct {
	Harness string
	Inputs  []interp.InputRec
	// results
	Failed  []string
	Reached []string
	Panic   string
	Ran     bool
}

// nativeReplayBatch compiles the harness files into the real package with
// go test -overlay (nothing is written into the repository) and runs every
// job in one test binary.
func nativeReplayBatch(repo string, overlayNames map[string]string, jobs []*nativeJob) (out string, err error) {
	if len(jobs) == 0 {
		return "", nil
	}
	tmp, err := os.MkdirTemp("", "symgo-replay-")
	if err != nil {
		return "", err
	}
	defer os.RemoveAll(tmp)
	var src strings.Builder
	src.WriteString("package tls\n\nimport \"testing\"\n\nfunc TestZZVerifReplay(t *testing.T) {\n")
	for i, j := range jobs {
		tbl := map[string]uint64{}
		for _, r := range j.Inputs {
			tbl[r.Name] = r.Val
		}
		if *flagTier == "thorough" {
			tbl["__thorough"] = 1
		}
		tb, _ := json.Marshal(tbl)
		tblPath := filepath.Join(tmp, fmt.Sprintf("inputs%d.json", i))
		os.WriteFile(tblPath, tb, 0o644)
		fmt.Fprintf(&src, "\tverifNativeRun(t, %d, %q, %s)\n", i, tblPath, j.Harness)
	}
	src.WriteString("}\n")
	testPath := filepath.Join(tmp, "zz_verif_replay_test.go")
	os.WriteFile(testPath, []byte(src.String()), 0o644)
	repl := map[string]string{filepath.Join(repo, "zz_verif_replay_test.go"): testPath}
	for real, virt := range overlayNames {
		repl[filepath.Join(repo, virt)] = real
	}
	ob, _ := json.Marshal(map[string]interface{}{"Replace": repl})
	ovPath := filepath.Join(tmp, "overlay.json")
	os.WriteFile(ovPath, ob, 0o644)
	cmd := exec.Command("go", "test", "-v", "-vet=off", "-count=1", "-run", "^TestZZVerifReplay$", "-overlay", ovPath, "-timeout", "600s", ".")
	cmd.Dir = repo
	cmd.Env = append(os.Environ(), "GOFLAGS=-mod=mod", "GOPROXY=off")
	ob2, _ := cmd.CombinedOutput()
	out = string(ob2)
	for _, mm := range nativeResultRe.FindAllStringSubmatch(out, -1) {
		var r struct {
			Job     int      `json:"job"`
			Failed  []string `json:"failed"`
			Reached []string `json:"reached"`
			Panic   string   `json:"panic"`
		}
		if e := json.Unmarshal([]byte(mm[1]), &r); e != nil || r.Job < 0 || r.Job >= len(jobs) {
			continue
		}
		j := jobs[r.Job]
		j.Failed, j.Reached, j.Panic, j.Ran = r.Failed, r.Reached, r.Panic, true
	}
	for _, j := range jobs {
		if !j.Ran {
			return out, fmt.Errorf("native replay produced no result for %s", j.Harness)
		}
	}
	return out, nil
}

func nativeReplay(repo, verif string, overlayNames map[string]string, harnessFunc string, inputs []interp.InputRec) (failed []string, reached []string, panicMsg string, out string, err error) {
	j := &nativeJob{Harness: harnessFunc, Inputs: inputs}
	out, err = nativeReplayBatch(repo, overlayNames, []*nativeJob{j})
	return j.Failed, j.Reached, j.Panic, out, err
}

func contains(ss []string, s string) bool {
	for _, x := range ss {
		if x == s {
			return true
		}
	}
	return false
}

func run() int {
	start := time.Now()
	verif := *flagVerif
	specs, overlayNames, err := parseHarnessFiles(filepath.Join(verif, "harness"))
	if err != nil {
		fmt.Fprintln(os.Stderr, "harness parse:", err)
		return 2
	}
	if *flagList {
		for _, s := range specs {
			fmt.Printf("%s %s %s tier=%s native=%v stubs=%d\n", s.Prop, s.Func, s.Name, s.Tier, s.Native, len(s.Stubs))
		}
		return 0
	}
	if *flagReplay != "" {
		return doReplay(verif, specs, overlayNames)
	}
	prop := *flagProp
	thorough := *flagTier == "thorough"
	var sel []HarnessSpec
	for _, s := range specs {
		if s.Prop != prop {
			continue
		}
		if *flagHarness != "" && s.Func != *flagHarness && s.Name != *flagHarness {
			continue
		}
		if s.Tier == "thorough" && !thorough {
			continue
		}
		if s.Tier == "quickonly" && thorough {
			continue
		}
		sel = append(sel, s)
	}
	if len(sel) == 0 {
		fmt.Fprintf(os.Stderr, "no harness for property %s\n", prop)
		return 2
	}
	ld, err := loadProgram(*flagRepo, overlayNames)
	if err != nil {
		fmt.Println("INCONCLUSIVE property=" + prop + " load failed: " + err.Error())
		return 2
	}
	workers := *flagWorkers
	if workers <= 0 {
		workers = runtime.NumCPU()
	}
	m := interp.NewMachine(ld.prog, ld.pkg, ld.tpkg.TypesSizes, nil)
	m.Trace = *flagTrace
	known := loadKnown(verif)

	var results []*harnessResult
	exit := 0
	var violLines, knownLines, inconcl []string
	tracesValidated := 0
	seed, _ := strconv.Atoi(os.Getenv("VERIF_SEED"))
	os.MkdirAll(filepath.Join(verif, "replays"), 0o755)
	knownMatched := map[string]int{}
	var pend []*pendingCheck
	nviolFiles := 0

	type prepared struct {
		hs    HarnessSpec
		fn    *ssa.Function
		stubs map[string]*ssa.Function
		hr    *harnessResult
	}
	var preps []*prepared
	for _, hs := range sel {
		fn := ld.pkg.Func(hs.Func)
		if fn == nil {
			inconcl = append(inconcl, hs.Func+": harness function not found")
			continue
		}
		stubs := map[string]*ssa.Function{}
		bad := false
		for _, st := range hs.Stubs {
			target := resolveFunc(ld.prog, ld.pkg, st[0])
			repl := ld.pkg.Func(st[1])
			if target == nil || repl == nil {
				inconcl = append(inconcl, fmt.Sprintf("%s: stub %s -> %s cannot be resolved (code moved?)", hs.Func, st[0], st[1]))
				bad = true
				continue
			}
			stubs[target.String()] = repl
		}
		if bad {
			continue
		}
		if *flagConcrete != "" {
			return runConcrete(m, fn, stubs, hs)
		}
		preps = append(preps, &prepared{hs: hs, fn: fn, stubs: stubs})
	}
	{
		// harnesses are explored concurrently; each has its own worker pool
		var wg sync.WaitGroup
		sem := make(chan struct{}, 4)
		for _, p := range preps {
			wg.Add(1)
			go func(p *prepared) {
				defer wg.Done()
				sem <- struct{}{}
				defer func() { <-sem }()
				p.hr = explore(m, p.fn, p.stubs, p.hs, workers, thorough)
			}(p)
		}
		wg.Wait()
	}
	for _, p := range preps {
		hs, fn, stubs, hr := p.hs, p.fn, p.stubs, p.hr
		results = append(results, hr)
		if *flagV {
			fmt.Fprintf(os.Stderr, "%s: paths=%d status=%v queries=%d wall=%.1fs\n", hs.Func, hr.Paths, hr.ByStatus, hr.Stats.Queries, hr.WallS)
		}
		if hr.Truncated {
			inconcl = append(inconcl, fmt.Sprintf("%s: exploration truncated at %d paths / %ds", hs.Func, hr.Paths, hs.WallS))
		}
		for _, s := range hr.Inconclusive {
			inconcl = append(inconcl, hs.Func+": "+s)
		}
		for _, lab := range hs.Expect {
			if _, ok := hr.Reached[lab]; !ok {
				inconcl = append(inconcl, fmt.Sprintf("%s: vacuity guard: label %q never reached", hs.Func, lab))
			}
		}
		// reach witnesses: replayed natively (batched below)
		if hs.Native && !*flagNoNative {
			for _, lab := range hs.Expect {
				if r, ok := hr.Reached[lab]; ok {
					pend = append(pend, &pendingCheck{hs: hs, kind: "reach", label: lab, job: &nativeJob{Harness: hs.Func, Inputs: r.Inputs}})
					break // one witness per harness is enough
				}
			}
		}
		// violations
		seen := map[string]bool{}
		for _, v := range hr.Violations {
			key := v.Label + "|" + v.Class
			if seen[key] {
				continue
			}
			seen[key] = true
			if k := matchKnown(known, prop, v.Label, v.Class); k != nil {
				knownMatched[key]++
				knownLines = append(knownLines, fmt.Sprintf("KNOWN-FINDING: property=%s %s %s — %s", prop, v.Label, v.Class, k.What))
				continue
			}
			nviolFiles++
			rp := filepath.Join(verif, "replays", fmt.Sprintf("%s-%s-%d.json", prop, hs.Name, nviolFiles))
			rf := replayFile{Property: prop, Harness: hs.Func, Label: v.Label, Class: v.Class, Msg: v.Msg, Inputs: v.Inputs, Native: hs.Native}
			rb, _ := json.MarshalIndent(rf, "", " ")
			os.WriteFile(rp, rb, 0o644)
			pc := &pendingCheck{hs: hs, kind: "violation", label: v.Label, viol: v, replayPath: rp, fn: fn, stubs: stubs}
			if hs.Native && !*flagNoNative {
				pc.job = &nativeJob{Harness: hs.Func, Inputs: v.Inputs}
			}
			pend = append(pend, pc)
		}
	}

	// native replay, one go test run for everything
	var jobs []*nativeJob
	for _, pc := range pend {
		if pc.job != nil {
			jobs = append(jobs, pc.job)
		}
	}
	nout, nerr := nativeReplayBatch(*flagRepo, overlayNames, jobs)
	for _, pc := range pend {
		hs := pc.hs
		switch pc.kind {
		case "reach":
			if nerr != nil && !pc.job.Ran {
				inconcl = append(inconcl, fmt.Sprintf("%s: native replay of reach witness failed: %v\n%s", hs.Func, nerr, tail(nout, 30)))
				continue
			}
			if !contains(pc.job.Reached, pc.label) && len(pc.job.Failed) == 0 && pc.job.Panic == "" {
				inconcl = append(inconcl, fmt.Sprintf("%s: reach witness for %q did not reach it natively (engine/stub mismatch)", hs.Func, pc.label))
				continue
			}
			tracesValidated++
		case "violation":
			v := pc.viol
			confirmed := true
			note := ""
			if pc.job != nil {
				switch {
				case !pc.job.Ran:
					confirmed = false
					note = fmt.Sprintf("native replay failed to run: %v\n%s", nerr, tail(nout, 30))
				case v.Panic && pc.job.Panic != "" && pc.job.Panic != "ASSUME-FAILED":
				case !v.Panic && contains(pc.job.Failed, v.Label):
				default:
					confirmed = false
					note = fmt.Sprintf("counterexample did not reproduce natively (failed=%v panic=%q)", pc.job.Failed, pc.job.Panic)
				}
			} else {
				ok, n := concreteReplay(m, pc.fn, pc.stubs, hs, v)
				if !ok {
					confirmed = false
					note = "counterexample did not reproduce in concrete mode: " + n
				}
			}
			if confirmed {
				tracesValidated++
				violLines = append(violLines, fmt.Sprintf("VIOLATION property=%s replay=%s label=%s class=%q harness=%s inputs: %s", prop, pc.replayPath, v.Label, v.Class, hs.Func, clip(interp.FormatInputs(v.Inputs), 400)))
			} else {
				inconcl = append(inconcl, fmt.Sprintf("%s: %s/%s: %s", hs.Func, v.Label, v.Class, note))
			}
		}
	}

	wall := time.Since(start).Seconds()
	writeEvidence(verif, prop, *flagTier, seed, results, ld, wall, len(violLines), tracesValidated, knownLines, inconcl)

	for _, l := range knownLines {
		fmt.Println(l)
	}
	if len(violLines) > 0 {
		for _, l := range violLines {
			fmt.Println(l)
		}
		exit = 1
	}
	if len(inconcl) > 0 {
		for _, l := range inconcl {
			fmt.Println("INCONCLUSIVE property=" + prop + " " + l)
		}
		if exit == 0 {
			exit = 2
		}
	}
	tp, tq := 0, 0
	for _, r := range results {
		tp += r.Paths
		tq += r.Stats.Queries
	}
	fmt.Printf("%s tier=%s harnesses=%d paths=%d queries=%d violations=%d known=%d inconclusive=%d wall=%.1fs\n", prop, *flagTier, len(results), tp, tq, len(violLines), len(knownLines), len(inconcl), wall)
	return exit
}

func tail(s string, n int) string {
	lines := strings.Split(strings.TrimSpace(s), "\n")
	if len(lines) > n {
		lines = lines[len(lines)-n:]
	}
	return strings.Join(lines, "\n")
}

func clip(s string, n int) string {
	if len(s) > n {
		return s[:n] + "…"
	}
	return s
}

func concreteReplay(m *interp.Machine, fn *ssa.Function, stubs map[string]*ssa.Function, hs HarnessSpec, v interp.Violation) (bool, string) {
	tbl := map[string]uint64{}
	for _, r := range v.Inputs {
		tbl[r.Name] = r.Val
	}
	ctx := interp.NewCtx(nil, interp.WorkItem{})
	ctx.Concrete = tbl
	ctx.Unwind = 1 << 30
	ctx.InstrCap = hs.InstrCap
	ctx.Thorough = *flagTier == "thorough"
	res := m.RunPath(ctx, fn, stubs)
	for _, cv := range res.Violations {
		if cv.Label == v.Label && (cv.Class == v.Class || v.Panic) {
			return true, ""
		}
	}
	return false, fmt.Sprintf("status=%s detail=%s violations=%d", res.Status, res.Detail, len(res.Violations))
}

func runConcrete(m *interp.Machine, fn *ssa.Function, stubs map[string]*ssa.Function, hs HarnessSpec) int {
	b, err := os.ReadFile(*flagConcrete)
	if err != nil {
		fmt.Fprintln(os.Stderr, err)
		return 2
	}
	tbl := map[string]uint64{}
	var rf replayFile
	if json.Unmarshal(b, &rf) == nil && len(rf.Inputs) > 0 {
		for _, r := range rf.Inputs {
			tbl[r.Name] = r.Val
		}
	} else {
		json.Unmarshal(b, &tbl)
	}
	ctx := interp.NewCtx(nil, interp.WorkItem{})
	ctx.Concrete = tbl
	ctx.Unwind = 1 << 30
	res := m.RunPath(ctx, fn, stubs)
	fmt.Printf("status=%s detail=%s asserts=%d instrs=%d\n", res.Status, res.Detail, res.Asserts, res.Instrs)
	for _, v := range res.Violations {
		fmt.Printf("  violation %s %q %s\n", v.Label, v.Class, v.Msg)
	}
	for _, o := range res.Observes {
		fmt.Println("  observe", o)
	}
	return 0
}

func doReplay(verif string, specs []HarnessSpec, overlayNames map[string]string) int {
	b, err := os.ReadFile(*flagReplay)
	if err != nil {
		fmt.Fprintln(os.Stderr, err)
		return 2
	}
	var rf replayFile
	if err := json.Unmarshal(b, &rf); err != nil {
		fmt.Fprintln(os.Stderr, err)
		return 2
	}
	var hs *HarnessSpec
	for i := range specs {
		if specs[i].Func == rf.Harness {
			hs = &specs[i]
		}
	}
	if hs == nil {
		fmt.Fprintln(os.Stderr, "unknown harness", rf.Harness)
		return 2
	}
	if hs.Native {
		failed, reached, pmsg, out, err := nativeReplay(*flagRepo, verif, overlayNames, hs.Func, rf.Inputs)
		if err != nil {
			fmt.Println("replay could not run:", err)
			fmt.Println(tail(out, 40))
			return 2
		}
		fmt.Printf("native replay of %s: failed=%v reached=%v panic=%q\n", hs.Func, failed, reached, pmsg)
		if contains(failed, rf.Label) || (pmsg != "" && rf.Label == "no-panic") {
			fmt.Printf("VIOLATION property=%s replay=%s (reproduced natively)\n", rf.Property, *flagReplay)
			return 1
		}
		fmt.Println("not reproduced")
		return 0
	}
	ld, err := loadProgram(*flagRepo, overlayNames)
	if err != nil {
		fmt.Fprintln(os.Stderr, err)
		return 2
	}
	m := interp.NewMachine(ld.prog, ld.pkg, ld.tpkg.TypesSizes, nil)
	fn := ld.pkg.Func(hs.Func)
	stubs := map[string]*ssa.Function{}
	for _, st := range hs.Stubs {
		target := resolveFunc(ld.prog, ld.pkg, st[0])
		repl := ld.pkg.Func(st[1])
		if target == nil || repl == nil {
			fmt.Fprintln(os.Stderr, "cannot resolve stub", st)
			return 2
		}
		stubs[target.String()] = repl
	}
	ok, note := concreteReplay(m, fn, stubs, *hs, interp.Violation{Label: rf.Label, Class: rf.Class, Inputs: rf.Inputs, Panic: rf.Label == "no-panic"})
	if ok {
		fmt.Printf("VIOLATION property=%s replay=%s (reproduced in concrete mode)\n", rf.Property, *flagReplay)
		return 1
	}
	fmt.Println("not reproduced:", note)
	return 0
}

func writeEvidence(verif, prop, tier string, seed int, results []*harnessResult, ld *loaded, wall float64, nviol, traces int, knownLines, inconcl []string) {
	states, trans := 0, 0
	var samples []interface{}
	funcs := map[string]int64{}
	stubsHit := map[string]int{}
	var bounds []map[string]interface{}
	var assumptions []string
	var total smt.Stats
	total.ByBackend = map[string]int{}
	asserts := 0
	var reach []string
	for _, r := range results {
		states += r.Paths
		trans += r.Decisions
		asserts += r.Asserts
		total.Merge(&r.Stats)
		for k, v := range r.Funcs {
			funcs[k] += v
		}
		for k, v := range r.StubsHit {
			stubsHit[k] += v
		}
		b := map[string]interface{}{
			"harness": r.Spec.Func, "name": r.Spec.Name, "unwind_bound": r.Spec.Unwind, "deepest_unwinding_seen": r.MaxUnwind,
			"paths": r.Paths, "path_status": r.ByStatus, "max_paths": r.Spec.MaxPaths, "per_query_timeout_ms": r.Spec.Timeout,
			"instructions_executed": r.Instrs, "assertions_checked": r.Asserts, "wall_s": r.WallS, "truncated": r.Truncated,
			"native_replayable": r.Spec.Native, "doc": strings.TrimSpace(r.Spec.Doc),
		}
		bounds = append(bounds, b)
		for _, a := range r.Spec.Assumes {
			assumptions = append(assumptions, r.Spec.Func+": "+a)
		}
		for _, st := range r.Spec.Stubs {
			assumptions = append(assumptions, fmt.Sprintf("%s: %s replaced by harness stub %s (contract in harness source)", r.Spec.Func, st[0], st[1]))
		}
		for lab, rw := range r.Reached {
			reach = append(reach, r.Spec.Func+":"+lab)
			if len(samples) < 12 {
				samples = append(samples, map[string]interface{}{"harness": r.Spec.Func, "reach": lab, "inputs": clip(interp.FormatInputs(rw.Inputs), 600)})
			}
		}
		for _, v := range r.Violations {
			if len(samples) < 16 {
				samples = append(samples, map[string]interface{}{"harness": r.Spec.Func, "counterexample_for": v.Label, "class": v.Class, "inputs": clip(interp.FormatInputs(v.Inputs), 600)})
			}
		}
	}
	if len(samples) == 0 {
		samples = append(samples, "no path completed")
	}
	if states == 0 {
		states = 1
	}
	if trans == 0 {
		trans = 1
	}
	type fc struct {
		Name string `json:"fn"`
		N    int64  `json:"calls"`
	}
	var fl []fc
	for k, v := range funcs {
		if strings.Contains(k, "zzRef") || strings.HasPrefix(k, "github.com/refraction-networking/utls.verif") {
			continue
		}
		fl = append(fl, fc{k, v})
	}
	sort.Slice(fl, func(i, j int) bool { return fl[i].N > fl[j].N || (fl[i].N == fl[j].N && fl[i].Name < fl[j].Name) })
	nf := len(fl)
	if len(fl) > 60 {
		fl = fl[:60]
	}
	sort.Strings(reach)
	assumptions = append(assumptions,
		"int/uint are 64-bit; integer arithmetic wraps; solver verdicts of z3 5.1 / cvc5 1.0 / z3 4.8.12 are trusted",
		"package initialisers of allow-listed packages run concretely; other packages' globals are zero",
		"sync primitives are single-threaded no-ops with a lock-discipline check; goroutines are not modelled")
	ev := map[string]interface{}{
		"property_id": prop,
		"tier":        tier,
		"seed":        seed,
		"level":       "model_checking",
		"coverage": map[string]interface{}{
			"states":                        states,
			"transitions":                   trans,
			"traces_validated_against_impl": traces,
			"samples":                       samples,
			"explanation":                   "states = completed symbolic paths (each covers every input satisfying its path condition); transitions = symbolic decisions (branch/concretisation) taken",
			"functions_encoded_count":       nf,
			"functions_encoded_top":         fl,
			"bounds":                        bounds,
			"assertions_checked":            asserts,
			"queries": map[string]interface{}{
				"total": total.Queries, "sat": total.Sat, "unsat": total.Unsat, "unknown": total.Unknown,
				"escalated_to_fallback": total.Escalated, "by_backend": total.ByBackend, "solver_errors": total.Errors,
				"cross_checked_unsat": total.CrossChecked, "cross_check_disagreements": total.CrossDisagree,
				"solver_wall_s": total.Wall.Seconds(),
			},
			"stubs_hit":              stubsHit,
			"reach_witnesses":        reach,
			"known_findings_matched": knownLines,
			"inconclusive":           inconcl,
			"encoding_regenerated_from": *flagRepo + " working tree (go/packages + go/ssa, " + fmt.Sprintf("%.1fs", ld.loadS) + ")",
			"exhaustive":             len(inconcl) == 0,
		},
		"assumptions": assumptions,
		"wall_s":      wall,
		"violations":  nviol,
	}
	os.MkdirAll(filepath.Join(verif, "evidence"), 0o755)
	b, _ := json.MarshalIndent(ev, "", " ")
	os.WriteFile(filepath.Join(verif, "evidence", prop+".json"), b, 0o644)
}
