// Package smt is the term language of symgo: bit-vector, boolean and
// IEEE-754 double terms with construction-time simplification, concrete
// evaluation under a model, and SMT-LIB2 printing.
package smt

import (
	"fmt"
	"math"
	"math/bits"
	"strings"
)

type SortKind uint8

const (
	KBool SortKind = iota
	KBV
	KF64
)

type Sort struct {
	K SortKind
	W int // bit width for KBV
}

func (s Sort) String() string {
	switch s.K {
	case KBool:
		return "Bool"
	case KBV:
		return fmt.Sprintf("(_ BitVec %d)", s.W)
	case KF64:
		return "(_ FloatingPoint 11 53)"
	}
	return "?"
}

var (
	BoolSort = Sort{K: KBool}
	F64Sort  = Sort{K: KF64}
)

func BV(w int) Sort { return Sort{K: KBV, W: w} }

type Op uint8

const (
	OConst Op = iota // Val
	OVar             // Name
	ONot
	OAnd
	OOr
	OXorB // boolean xor
	OEq
	OIte
	OAdd
	OSub
	OMul
	OUDiv
	OSDiv
	OURem
	OSRem
	OBAnd
	OBOr
	OBXor
	OBNot
	ONeg
	OShl
	OLShr
	OAShr
	OUlt
	OUle
	OSlt
	OSle
	OExtract // I1=hi I2=lo
	OConcat
	OZext // to width W
	OSext
	OUF // Name, args
	// floating point (double)
	OFAdd
	OFSub
	OFMul
	OFDiv
	OFNeg
	OFLt
	OFLe
	OFEq     // IEEE equality
	OFIsNaN
	OSToF    // signed bv -> f64 (RNE)
	OUToF    // unsigned bv -> f64 (RNE)
	OFToS    // f64 -> signed bv W (RTZ)
	OFToU    // f64 -> unsigned bv W (RTZ)
	OFFromBV // reinterpret bv64 as f64
	OFToBV   // reinterpret f64 as bv64 (only sound for non-NaN)
)

type Term struct {
	Op   Op
	S    Sort
	Args []*Term
	Val  uint64 // OConst (for F64: IEEE bits)
	Name string // OVar, OUF
	I1   int
	I2   int
	id   uint64
	key  string
}

// Key returns a canonical structural key of t (cached).
func (t *Term) Key() string {
	if t.key != "" {
		return t.key
	}
	var sb strings.Builder
	switch t.Op {
	case OConst:
		fmt.Fprintf(&sb, "c%d:%d:%x", t.S.K, t.S.W, t.Val)
	case OVar:
		sb.WriteString("v:" + t.Name)
	default:
		fmt.Fprintf(&sb, "(%d", t.Op)
		if t.Op == OExtract {
			fmt.Fprintf(&sb, "[%d:%d]", t.I1, t.I2)
		}
		if t.Op == OZext || t.Op == OSext || t.Op == OFToS || t.Op == OFToU {
			fmt.Fprintf(&sb, "w%d", t.S.W)
		}
		if t.Op == OUF {
			sb.WriteString(t.Name)
		}
		for _, a := range t.Args {
			sb.WriteString(" ")
			sb.WriteString(a.Key())
		}
		sb.WriteString(")")
	}
	t.key = sb.String()
	return t.key
}

var idCounter uint64

// ids only need to be unique per goroutine-local printing session; a global
// atomic would do but terms are created per worker so a racy counter is not
// acceptable: use pointer identity in maps instead. id is unused.

func mask(w int) uint64 {
	if w >= 64 {
		return ^uint64(0)
	}
	return (uint64(1) << uint(w)) - 1
}

func (t *Term) IsConst() bool { return t.Op == OConst }

func (t *Term) IsTrue() bool  { return t.Op == OConst && t.S.K == KBool && t.Val == 1 }
func (t *Term) IsFalse() bool { return t.Op == OConst && t.S.K == KBool && t.Val == 0 }

var (
	True  = &Term{Op: OConst, S: BoolSort, Val: 1}
	False = &Term{Op: OConst, S: BoolSort, Val: 0}
)

func Bool(b bool) *Term {
	if b {
		return True
	}
	return False
}

func Const(w int, v uint64) *Term {
	return &Term{Op: OConst, S: BV(w), Val: v & mask(w)}
}

func F64Const(f float64) *Term {
	return &Term{Op: OConst, S: F64Sort, Val: math.Float64bits(f)}
}

func Var(name string, s Sort) *Term {
	return &Term{Op: OVar, S: s, Name: name}
}

func UF(name string, s Sort, args ...*Term) *Term {
	return &Term{Op: OUF, S: s, Name: name, Args: args}
}

func sext64(v uint64, w int) int64 {
	if w >= 64 {
		return int64(v)
	}
	sh := uint(64 - w)
	return int64(v<<sh) >> sh
}

func mk(op Op, s Sort, args ...*Term) *Term {
	return &Term{Op: op, S: s, Args: args}
}

func allConst(args ...*Term) bool {
	for _, a := range args {
		if a.Op != OConst {
			return false
		}
	}
	return true
}

// ---- boolean ----

func Not(a *Term) *Term {
	if a.Op == OConst {
		return Bool(a.Val == 0)
	}
	if a.Op == ONot {
		return a.Args[0]
	}
	return mk(ONot, BoolSort, a)
}

func And(a, b *Term) *Term {
	if a.IsFalse() || b.IsFalse() {
		return False
	}
	if a.IsTrue() {
		return b
	}
	if b.IsTrue() {
		return a
	}
	if a == b {
		return a
	}
	return mk(OAnd, BoolSort, a, b)
}

func Or(a, b *Term) *Term {
	if a.IsTrue() || b.IsTrue() {
		return True
	}
	if a.IsFalse() {
		return b
	}
	if b.IsFalse() {
		return a
	}
	if a == b {
		return a
	}
	return mk(OOr, BoolSort, a, b)
}

func AndN(ts ...*Term) *Term {
	r := True
	for _, t := range ts {
		r = And(r, t)
	}
	return r
}

func Eq(a, b *Term) *Term {
	if a.S != b.S {
		panic(fmt.Sprintf("smt.Eq sort mismatch %v %v", a.S, b.S))
	}
	if a == b && a.S.K != KF64 {
		return True
	}
	if a.Op == OConst && b.Op == OConst && a.S.K != KF64 {
		return Bool(a.Val == b.Val)
	}
	if a.S.K == KBool {
		if a.IsTrue() {
			return b
		}
		if b.IsTrue() {
			return a
		}
		if a.IsFalse() {
			return Not(b)
		}
		if b.IsFalse() {
			return Not(a)
		}
	}
	// zext(x) == const  where const fits  -> x == const'
	if a.Op == OConst {
		a, b = b, a
	}
	if b.Op == OConst && a.Op == OZext {
		inner := a.Args[0]
		if b.Val>>uint(inner.S.W) != 0 {
			return False
		}
		return Eq(inner, Const(inner.S.W, b.Val))
	}
	return mk(OEq, BoolSort, a, b)
}

func Ite(c, a, b *Term) *Term {
	if c.IsTrue() {
		return a
	}
	if c.IsFalse() {
		return b
	}
	if a == b {
		return a
	}
	if a.S.K == KBool {
		if a.IsTrue() && b.IsFalse() {
			return c
		}
		if a.IsFalse() && b.IsTrue() {
			return Not(c)
		}
	}
	if a.Op == OConst && b.Op == OConst && a.Val == b.Val && a.S == b.S {
		return a
	}
	return mk(OIte, a.S, c, a, b)
}

// ---- bit-vector arithmetic ----

func binConst(op Op, w int, x, y uint64) (uint64, bool) {
	m := mask(w)
	switch op {
	case OAdd:
		return (x + y) & m, true
	case OSub:
		return (x - y) & m, true
	case OMul:
		return (x * y) & m, true
	case OUDiv:
		if y == 0 {
			return m, true
		}
		return (x / y) & m, true
	case OURem:
		if y == 0 {
			return x, true
		}
		return (x % y) & m, true
	case OSDiv:
		sx, sy := sext64(x, w), sext64(y, w)
		if sy == 0 {
			if sx >= 0 {
				return m, true
			}
			return 1, true
		}
		if sy == -1 {
			return uint64(-sx) & m, true
		}
		return uint64(sx/sy) & m, true
	case OSRem:
		sx, sy := sext64(x, w), sext64(y, w)
		if sy == 0 {
			return x, true
		}
		if sy == -1 {
			return 0, true
		}
		return uint64(sx%sy) & m, true
	case OBAnd:
		return x & y, true
	case OBOr:
		return x | y, true
	case OBXor:
		return x ^ y, true
	case OShl:
		if y >= uint64(w) {
			return 0, true
		}
		return (x << y) & m, true
	case OLShr:
		if y >= uint64(w) {
			return 0, true
		}
		return x >> y, true
	case OAShr:
		sx := sext64(x, w)
		if y >= uint64(w) {
			y = uint64(w - 1)
		}
		return uint64(sx>>y) & m, true
	}
	return 0, false
}

func Bin(op Op, a, b *Term) *Term {
	if a.S != b.S || a.S.K != KBV {
		panic(fmt.Sprintf("smt.Bin(%d) sort mismatch %v %v", op, a.S, b.S))
	}
	w := a.S.W
	if a.Op == OConst && b.Op == OConst {
		if v, ok := binConst(op, w, a.Val, b.Val); ok {
			return Const(w, v)
		}
	}
	switch op {
	case OAdd:
		if a.Op == OConst && a.Val == 0 {
			return b
		}
		if b.Op == OConst && b.Val == 0 {
			return a
		}
		// (x + c1) + c2
		if b.Op == OConst && a.Op == OAdd && a.Args[1].Op == OConst {
			return Bin(OAdd, a.Args[0], Const(w, a.Args[1].Val+b.Val))
		}
		if a.Op == OConst { // canonical: const on the right
			return Bin(OAdd, b, a)
		}
	case OSub:
		if b.Op == OConst && b.Val == 0 {
			return a
		}
		if a == b {
			return Const(w, 0)
		}
		if b.Op == OConst {
			return Bin(OAdd, a, Const(w, -b.Val))
		}
	case OMul:
		if a.Op == OConst {
			a, b = b, a
		}
		if b.Op == OConst {
			if b.Val == 0 {
				return b
			}
			if b.Val == 1 {
				return a
			}
			if bits.OnesCount64(b.Val) == 1 {
				return Bin(OShl, a, Const(w, uint64(bits.TrailingZeros64(b.Val))))
			}
		}
	case OBAnd:
		if a.Op == OConst {
			a, b = b, a
		}
		if b.Op == OConst {
			if b.Val == 0 {
				return b
			}
			if b.Val == mask(w) {
				return a
			}
			// zext(x,k) & m where m covers the k low bits
			if a.Op == OZext {
				iw := a.Args[0].S.W
				if b.Val&mask(iw) == mask(iw) {
					return a
				}
			}
			// x & (2^k-1)  -> zext(extract(k-1,0,x))
			if b.Val&(b.Val+1) == 0 {
				k := bits.Len64(b.Val)
				return Zext(Extract(a, k-1, 0), w)
			}
		}
		if a == b {
			return a
		}
	case OBOr:
		if a.Op == OConst {
			a, b = b, a
		}
		if b.Op == OConst {
			if b.Val == 0 {
				return a
			}
			if b.Val == mask(w) {
				return b
			}
		}
		if a == b {
			return a
		}
	case OBXor:
		if a.Op == OConst {
			a, b = b, a
		}
		if b.Op == OConst && b.Val == 0 {
			return a
		}
		if a == b {
			return Const(w, 0)
		}
	case OShl, OLShr, OAShr:
		if b.Op == OConst {
			if b.Val == 0 {
				return a
			}
			if b.Val >= uint64(w) && op != OAShr {
				return Const(w, 0)
			}
			k := int(b.Val)
			if op == OLShr && k < w {
				// x >> k  == zext(extract(w-1,k,x))
				return Zext(Extract(a, w-1, k), w)
			}
			if op == OShl && k < w {
				// x << k == concat(extract(w-1-k,0,x), 0_k)
				return Concat(Extract(a, w-1-k, 0), Const(k, 0))
			}
		}
		if a.Op == OConst && a.Val == 0 {
			return a
		}
	case OUDiv, OSDiv:
		if b.Op == OConst && b.Val == 1 {
			return a
		}
	}
	return mk(op, a.S, a, b)
}

func BNot(a *Term) *Term {
	if a.Op == OConst {
		return Const(a.S.W, ^a.Val)
	}
	if a.Op == OBNot {
		return a.Args[0]
	}
	return mk(OBNot, a.S, a)
}

func Neg(a *Term) *Term {
	if a.Op == OConst {
		return Const(a.S.W, -a.Val)
	}
	return mk(ONeg, a.S, a)
}

func Cmp(op Op, a, b *Term) *Term {
	if a.S != b.S || a.S.K != KBV {
		panic(fmt.Sprintf("smt.Cmp sort mismatch %v %v", a.S, b.S))
	}
	w := a.S.W
	if a.Op == OConst && b.Op == OConst {
		switch op {
		case OUlt:
			return Bool(a.Val < b.Val)
		case OUle:
			return Bool(a.Val <= b.Val)
		case OSlt:
			return Bool(sext64(a.Val, w) < sext64(b.Val, w))
		case OSle:
			return Bool(sext64(a.Val, w) <= sext64(b.Val, w))
		}
	}
	if a == b {
		return Bool(op == OUle || op == OSle)
	}
	// comparisons of a zero-extended value against a constant
	if a.Op == OZext && b.Op == OConst {
		iw := a.Args[0].S.W
		inner := a.Args[0]
		bv := b.Val
		neg := sext64(bv, w) < 0
		switch op {
		case OUlt:
			if bv > mask(iw) {
				return True
			}
			return Cmp(OUlt, inner, Const(iw, bv))
		case OUle:
			if bv >= mask(iw) {
				return True
			}
			return Cmp(OUle, inner, Const(iw, bv))
		case OSlt:
			if iw < w {
				if neg {
					return False
				}
				return Cmp(OUlt, a, b)
			}
		case OSle:
			if iw < w {
				if neg {
					return False
				}
				return Cmp(OUle, a, b)
			}
		}
	}
	if b.Op == OZext && a.Op == OConst {
		iw := b.Args[0].S.W
		inner := b.Args[0]
		av := a.Val
		neg := sext64(av, w) < 0
		switch op {
		case OUlt:
			if av >= mask(iw) {
				return False
			}
			return Cmp(OUlt, Const(iw, av), inner)
		case OUle:
			if av > mask(iw) {
				return False
			}
			return Cmp(OUle, Const(iw, av), inner)
		case OSlt:
			if iw < w {
				if neg {
					return True
				}
				return Cmp(OUlt, a, b)
			}
		case OSle:
			if iw < w {
				if neg {
					return True
				}
				return Cmp(OUle, a, b)
			}
		}
	}
	if op == OUlt && b.Op == OConst && b.Val == 0 {
		return False
	}
	if op == OUle && a.Op == OConst && a.Val == 0 {
		return True
	}
	return mk(op, BoolSort, a, b)
}

func Extract(a *Term, hi, lo int) *Term {
	if a.S.K != KBV || hi < lo || hi >= a.S.W || lo < 0 {
		panic(fmt.Sprintf("smt.Extract bad range %d %d of %v", hi, lo, a.S))
	}
	w := hi - lo + 1
	if w == a.S.W {
		return a
	}
	if a.Op == OConst {
		return Const(w, a.Val>>uint(lo))
	}
	switch a.Op {
	case OZext:
		iw := a.Args[0].S.W
		if hi < iw {
			return Extract(a.Args[0], hi, lo)
		}
		if lo >= iw {
			return Const(w, 0)
		}
		return Zext(Extract(a.Args[0], iw-1, lo), w)
	case OSext:
		iw := a.Args[0].S.W
		if hi < iw {
			return Extract(a.Args[0], hi, lo)
		}
	case OExtract:
		return Extract(a.Args[0], a.I2+hi, a.I2+lo)
	case OConcat:
		lw := a.Args[1].S.W
		if hi < lw {
			return Extract(a.Args[1], hi, lo)
		}
		if lo >= lw {
			return Extract(a.Args[0], hi-lw, lo-lw)
		}
		return Concat(Extract(a.Args[0], hi-lw, 0), Extract(a.Args[1], lw-1, lo))
	case OBAnd, OBOr, OBXor:
		return Bin(a.Op, Extract(a.Args[0], hi, lo), Extract(a.Args[1], hi, lo))
	case OBNot:
		return BNot(Extract(a.Args[0], hi, lo))
	case OAdd, OSub, OMul:
		if lo == 0 { // low bits of modular arithmetic depend only on low bits
			return Bin(a.Op, Extract(a.Args[0], hi, 0), Extract(a.Args[1], hi, 0))
		}
	case OIte:
		if a.Args[1].Op == OConst || a.Args[2].Op == OConst {
			return Ite(a.Args[0], Extract(a.Args[1], hi, lo), Extract(a.Args[2], hi, lo))
		}
	}
	t := mk(OExtract, BV(w), a)
	t.I1, t.I2 = hi, lo
	return t
}

func Concat(hi, lo *Term) *Term {
	w := hi.S.W + lo.S.W
	if w > 64 {
		panic("smt.Concat wider than 64")
	}
	if hi.Op == OConst && lo.Op == OConst {
		return Const(w, hi.Val<<uint(lo.S.W)|lo.Val)
	}
	if hi.Op == OConst && hi.Val == 0 {
		return Zext(lo, w)
	}
	// concat(extract(h,m+1,x), extract(m,l,x)) = extract(h,l,x)
	if hi.Op == OExtract && lo.Op == OExtract && hi.Args[0] == lo.Args[0] && hi.I2 == lo.I1+1 {
		return Extract(hi.Args[0], hi.I1, lo.I2)
	}
	return mk(OConcat, BV(w), hi, lo)
}

func Zext(a *Term, w int) *Term {
	if a.S.W == w {
		return a
	}
	if a.S.W > w {
		panic("smt.Zext narrowing")
	}
	if a.Op == OConst {
		return Const(w, a.Val)
	}
	if a.Op == OZext {
		return Zext(a.Args[0], w)
	}
	return mk(OZext, BV(w), a)
}

func Sext(a *Term, w int) *Term {
	if a.S.W == w {
		return a
	}
	if a.S.W > w {
		panic("smt.Sext narrowing")
	}
	if a.Op == OConst {
		return Const(w, uint64(sext64(a.Val, a.S.W)))
	}
	if a.Op == OZext && a.Args[0].S.W < a.S.W {
		return Zext(a.Args[0], w)
	}
	return mk(OSext, BV(w), a)
}

// ---- floating point ----

func fval(t *Term) float64 { return math.Float64frombits(t.Val) }

func FBin(op Op, a, b *Term) *Term {
	if a.Op == OConst && b.Op == OConst {
		x, y := fval(a), fval(b)
		switch op {
		case OFAdd:
			return F64Const(x + y)
		case OFSub:
			return F64Const(x - y)
		case OFMul:
			return F64Const(x * y)
		case OFDiv:
			return F64Const(x / y)
		}
	}
	return mk(op, F64Sort, a, b)
}

func FNeg(a *Term) *Term {
	if a.Op == OConst {
		return F64Const(-fval(a))
	}
	return mk(OFNeg, F64Sort, a)
}

func FCmp(op Op, a, b *Term) *Term {
	if a.Op == OConst && b.Op == OConst {
		x, y := fval(a), fval(b)
		switch op {
		case OFLt:
			return Bool(x < y)
		case OFLe:
			return Bool(x <= y)
		case OFEq:
			return Bool(x == y)
		}
	}
	return mk(op, BoolSort, a, b)
}

func FIsNaN(a *Term) *Term {
	if a.Op == OConst {
		return Bool(math.IsNaN(fval(a)))
	}
	return mk(OFIsNaN, BoolSort, a)
}

func IntToF(a *Term, signed bool) *Term {
	if a.Op == OConst {
		if signed {
			return F64Const(float64(sext64(a.Val, a.S.W)))
		}
		return F64Const(float64(a.Val))
	}
	if signed {
		return mk(OSToF, F64Sort, a)
	}
	return mk(OUToF, F64Sort, a)
}

func FToInt(a *Term, w int, signed bool) *Term {
	op := OFToU
	if signed {
		op = OFToS
	}
	return mk(op, BV(w), a)
}

func FFromBits(a *Term) *Term {
	if a.Op == OConst {
		return &Term{Op: OConst, S: F64Sort, Val: a.Val}
	}
	return mk(OFFromBV, F64Sort, a)
}

// ---- evaluation ----

// Eval computes the value of t under model m (variables absent from m are 0).
// ok is false when t contains a construct that cannot be evaluated (UF,
// float-to-int corner cases).
func Eval(t *Term, m map[string]uint64, memo map[*Term]uint64) (v uint64, ok bool) {
	if t.Op == OConst {
		return t.Val, true
	}
	if r, hit := memo[t]; hit {
		return r, true
	}
	defer func() {
		if ok {
			memo[t] = v
		}
	}()
	if t.Op == OVar {
		return m[t.Name], true
	}
	if t.Op == OUF {
		v, ok := m[UFModelKey(t)]
		return v, ok
	}
	var a [3]uint64
	if t.Op == OIte {
		c, ok := Eval(t.Args[0], m, memo)
		if !ok {
			return 0, false
		}
		if c != 0 {
			return Eval(t.Args[1], m, memo)
		}
		return Eval(t.Args[2], m, memo)
	}
	for i, x := range t.Args {
		r, ok := Eval(x, m, memo)
		if !ok {
			return 0, false
		}
		a[i] = r
	}
	b2u := func(b bool) uint64 {
		if b {
			return 1
		}
		return 0
	}
	switch t.Op {
	case ONot:
		return a[0] ^ 1, true
	case OAnd:
		return a[0] & a[1], true
	case OOr:
		return a[0] | a[1], true
	case OXorB:
		return a[0] ^ a[1], true
	case OEq:
		if t.Args[0].S.K == KF64 {
			// SMT '=' on floats is structural except NaN==NaN; we only emit OEq
			// on floats for bit-identity.
			return b2u(a[0] == a[1]), true
		}
		return b2u(a[0] == a[1]), true
	case OAdd, OSub, OMul, OUDiv, OSDiv, OURem, OSRem, OBAnd, OBOr, OBXor, OShl, OLShr, OAShr:
		r, _ := binConst(t.Op, t.S.W, a[0], a[1])
		return r, true
	case OBNot:
		return ^a[0] & mask(t.S.W), true
	case ONeg:
		return -a[0] & mask(t.S.W), true
	case OUlt:
		return b2u(a[0] < a[1]), true
	case OUle:
		return b2u(a[0] <= a[1]), true
	case OSlt:
		w := t.Args[0].S.W
		return b2u(sext64(a[0], w) < sext64(a[1], w)), true
	case OSle:
		w := t.Args[0].S.W
		return b2u(sext64(a[0], w) <= sext64(a[1], w)), true
	case OExtract:
		return (a[0] >> uint(t.I2)) & mask(t.S.W), true
	case OConcat:
		return a[0]<<uint(t.Args[1].S.W) | a[1], true
	case OZext:
		return a[0], true
	case OSext:
		return uint64(sext64(a[0], t.Args[0].S.W)) & mask(t.S.W), true
	case OFAdd:
		return math.Float64bits(math.Float64frombits(a[0]) + math.Float64frombits(a[1])), true
	case OFSub:
		return math.Float64bits(math.Float64frombits(a[0]) - math.Float64frombits(a[1])), true
	case OFMul:
		return math.Float64bits(math.Float64frombits(a[0]) * math.Float64frombits(a[1])), true
	case OFDiv:
		return math.Float64bits(math.Float64frombits(a[0]) / math.Float64frombits(a[1])), true
	case OFNeg:
		return math.Float64bits(-math.Float64frombits(a[0])), true
	case OFLt:
		return b2u(math.Float64frombits(a[0]) < math.Float64frombits(a[1])), true
	case OFLe:
		return b2u(math.Float64frombits(a[0]) <= math.Float64frombits(a[1])), true
	case OFEq:
		return b2u(math.Float64frombits(a[0]) == math.Float64frombits(a[1])), true
	case OFIsNaN:
		return b2u(math.IsNaN(math.Float64frombits(a[0]))), true
	case OSToF:
		return math.Float64bits(float64(sext64(a[0], t.Args[0].S.W))), true
	case OUToF:
		return math.Float64bits(float64(a[0])), true
	case OFFromBV:
		return a[0], true
	case OFToBV:
		return a[0], true
	case OFToS, OFToU:
		f := math.Float64frombits(a[0])
		if math.IsNaN(f) || math.IsInf(f, 0) {
			return 0, false
		}
		tr := math.Trunc(f)
		if t.Op == OFToS {
			lim := math.Ldexp(1, t.S.W-1)
			if tr >= lim || tr < -lim {
				return 0, false
			}
			return uint64(int64(tr)) & mask(t.S.W), true
		}
		if tr < 0 || tr >= math.Ldexp(1, t.S.W) {
			return 0, false
		}
		return uint64(tr) & mask(t.S.W), true
	}
	return 0, false
}

// ---- printing ----

var opNames = map[Op]string{
	ONot: "not", OAnd: "and", OOr: "or", OXorB: "xor", OEq: "=", OIte: "ite",
	OAdd: "bvadd", OSub: "bvsub", OMul: "bvmul", OUDiv: "bvudiv", OSDiv: "bvsdiv",
	OURem: "bvurem", OSRem: "bvsrem", OBAnd: "bvand", OBOr: "bvor", OBXor: "bvxor",
	OBNot: "bvnot", ONeg: "bvneg", OShl: "bvshl", OLShr: "bvlshr", OAShr: "bvashr",
	OUlt: "bvult", OUle: "bvule", OSlt: "bvslt", OSle: "bvsle", OConcat: "concat",
	OFNeg: "fp.neg", OFLt: "fp.lt", OFLe: "fp.leq", OFEq: "fp.eq", OFIsNaN: "fp.isNaN",
}

func constStr(t *Term) string {
	switch t.S.K {
	case KBool:
		if t.Val != 0 {
			return "true"
		}
		return "false"
	case KBV:
		if t.S.W%4 == 0 {
			return fmt.Sprintf("#x%0*x", t.S.W/4, t.Val)
		}
		return fmt.Sprintf("#b%0*b", t.S.W, t.Val)
	case KF64:
		return fmt.Sprintf("(fp #b%b #b%011b #b%052b)", t.Val>>63, (t.Val>>52)&0x7ff, t.Val&((1<<52)-1))
	}
	return "?"
}

// Printer emits SMT-LIB2 definitions for term DAG nodes. Every non-leaf node
// becomes a named define-fun so shared sub-DAGs are printed once.
type Printer struct {
	names map[*Term]string
	Vars  map[string]Sort     // declared variables
	UFs   map[string]string   // declared UF signatures
	n     int
	Out   *strings.Builder // pending declarations / definitions
	VarOrder []string
	UFNodes  []*Term  // every UF application printed so far
	UFNames  []string // their define-fun names (parallel to UFNodes)
}

func NewPrinter() *Printer {
	return &Printer{names: map[*Term]string{}, Vars: map[string]Sort{}, UFs: map[string]string{}, Out: &strings.Builder{}}
}

// symName quotes a user-level name as an SMT-LIB symbol; the prefix keeps it
// apart from theory symbols such as xor, and, select.
func symName(s string) string {
	return "|v." + strings.NewReplacer("|", "_", "\\", "_").Replace(s) + "|"
}

// Ref returns the SMT-LIB expression naming t, appending any needed
// declarations and definitions to p.Out.
func (p *Printer) Ref(t *Term) string {
	if t.Op == OConst {
		return constStr(t)
	}
	if n, ok := p.names[t]; ok {
		return n
	}
	if t.Op == OVar {
		n := symName(t.Name)
		if old, ok := p.Vars[t.Name]; ok {
			if old != t.S {
				panic(fmt.Sprintf("variable %s declared with two sorts %v %v", t.Name, old, t.S))
			}
		} else {
			p.Vars[t.Name] = t.S
			p.VarOrder = append(p.VarOrder, t.Name)
			fmt.Fprintf(p.Out, "(declare-const %s %s)\n", n, t.S)
		}
		p.names[t] = n
		return n
	}
	args := make([]string, len(t.Args))
	for i, a := range t.Args {
		args[i] = p.Ref(a)
	}
	var body string
	switch t.Op {
	case OExtract:
		body = fmt.Sprintf("((_ extract %d %d) %s)", t.I1, t.I2, args[0])
	case OZext:
		body = fmt.Sprintf("((_ zero_extend %d) %s)", t.S.W-t.Args[0].S.W, args[0])
	case OSext:
		body = fmt.Sprintf("((_ sign_extend %d) %s)", t.S.W-t.Args[0].S.W, args[0])
	case OUF:
		sig := ""
		for _, a := range t.Args {
			sig += a.S.String() + " "
		}
		sig = "(" + strings.TrimSpace(sig) + ") " + t.S.String()
		if old, ok := p.UFs[t.Name]; ok {
			if old != sig {
				panic(fmt.Sprintf("UF %s used with two signatures: %s / %s", t.Name, old, sig))
			}
		} else {
			p.UFs[t.Name] = sig
			fmt.Fprintf(p.Out, "(declare-fun %s %s)\n", symName(t.Name), sig)
		}
		if len(args) == 0 {
			body = symName(t.Name)
		} else {
			body = "(" + symName(t.Name) + " " + strings.Join(args, " ") + ")"
		}
	case OFAdd:
		body = "(fp.add RNE " + args[0] + " " + args[1] + ")"
	case OFSub:
		body = "(fp.sub RNE " + args[0] + " " + args[1] + ")"
	case OFMul:
		body = "(fp.mul RNE " + args[0] + " " + args[1] + ")"
	case OFDiv:
		body = "(fp.div RNE " + args[0] + " " + args[1] + ")"
	case OSToF:
		body = "((_ to_fp 11 53) RNE " + args[0] + ")"
	case OUToF:
		body = "((_ to_fp_unsigned 11 53) RNE " + args[0] + ")"
	case OFToS:
		body = fmt.Sprintf("((_ fp.to_sbv %d) RTZ %s)", t.S.W, args[0])
	case OFToU:
		body = fmt.Sprintf("((_ fp.to_ubv %d) RTZ %s)", t.S.W, args[0])
	case OFFromBV:
		body = "((_ to_fp 11 53) " + args[0] + ")"
	default:
		name, ok := opNames[t.Op]
		if !ok {
			panic(fmt.Sprintf("smt: cannot print op %d", t.Op))
		}
		body = "(" + name + " " + strings.Join(args, " ") + ")"
	}
	p.n++
	n := fmt.Sprintf("t%d", p.n)
	fmt.Fprintf(p.Out, "(define-fun %s () %s %s)\n", n, t.S, body)
	p.names[t] = n
	if t.Op == OUF {
		p.UFNodes = append(p.UFNodes, t)
		p.UFNames = append(p.UFNames, n)
	}
	return n
}

// UFModelKey is the key under which a model stores the value of the UF
// application t (the solver's interpretation at these arguments).
func UFModelKey(t *Term) string { return "@ufapp:" + t.Key() }

// Flush returns and clears pending text.
func (p *Printer) Flush() string {
	s := p.Out.String()
	p.Out.Reset()
	return s
}

// String renders a term as a nested expression (debugging / samples).
func (t *Term) String() string {
	var sb strings.Builder
	t.str(&sb, 0)
	return sb.String()
}

func (t *Term) str(sb *strings.Builder, depth int) {
	if depth > 6 {
		sb.WriteString("…")
		return
	}
	switch t.Op {
	case OConst:
		if t.S.K == KBV {
			fmt.Fprintf(sb, "%d", t.Val)
		} else {
			sb.WriteString(constStr(t))
		}
	case OVar:
		sb.WriteString(t.Name)
	case OExtract:
		fmt.Fprintf(sb, "(extract %d %d ", t.I1, t.I2)
		t.Args[0].str(sb, depth+1)
		sb.WriteString(")")
	default:
		name := opNames[t.Op]
		if name == "" {
			switch t.Op {
			case OZext:
				name = fmt.Sprintf("zext%d", t.S.W)
			case OSext:
				name = fmt.Sprintf("sext%d", t.S.W)
			case OUF:
				name = t.Name
			default:
				name = fmt.Sprintf("op%d", t.Op)
			}
		}
		sb.WriteString("(" + name)
		for _, a := range t.Args {
			sb.WriteString(" ")
			a.str(sb, depth+1)
		}
		sb.WriteString(")")
	}
}

// Vars collects the variable names in t.
func CollectVars(t *Term, seen map[*Term]bool, out map[string]Sort) {
	if seen[t] {
		return
	}
	seen[t] = true
	if t.Op == OVar {
		out[t.Name] = t.S
	}
	for _, a := range t.Args {
		CollectVars(a, seen, out)
	}
}
