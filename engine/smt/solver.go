package smt

import (
	"bufio"
	"sync"
	"fmt"
	"io"
	"os"
	"os/exec"
	"regexp"
	"strconv"
	"strings"
	"time"
)

type Verdict int

const (
	Unknown Verdict = iota
	Sat
	Unsat
)

func (v Verdict) String() string {
	return [...]string{"unknown", "sat", "unsat"}[v]
}

// Stats accumulates solver usage for the evidence file.
type Stats struct {
	Queries   int
	Sat       int
	Unsat     int
	Unknown   int
	Escalated int            // queries that needed a fallback back end
	ByBackend map[string]int // decided verdicts per back end
	Wall      time.Duration
	Errors    int
	CrossChecked int
	CrossDisagree int
}

func (s *Stats) Merge(o *Stats) {
	s.Queries += o.Queries
	s.Sat += o.Sat
	s.Unsat += o.Unsat
	s.Unknown += o.Unknown
	s.Escalated += o.Escalated
	s.Wall += o.Wall
	s.Errors += o.Errors
	s.CrossChecked += o.CrossChecked
	s.CrossDisagree += o.CrossDisagree
	if s.ByBackend == nil {
		s.ByBackend = map[string]int{}
	}
	for k, v := range o.ByBackend {
		s.ByBackend[k] += v
	}
}

// proc is a persistent solver process speaking SMT-LIB2 on stdin/stdout.
type proc struct {
	name  string
	cmd   *exec.Cmd
	in    io.WriteCloser
	out   *bufio.Reader
	dead  bool
	mu    sync.Mutex
	cond  *sync.Cond
	lines []string
	eof   bool
	seq   int
}

func startProc(name string, argv []string) (*proc, error) {
	cmd := exec.Command(argv[0], argv[1:]...)
	in, err := cmd.StdinPipe()
	if err != nil {
		return nil, err
	}
	out, err := cmd.StdoutPipe()
	if err != nil {
		return nil, err
	}
	cmd.Stderr = nil
	if err := cmd.Start(); err != nil {
		return nil, err
	}
	p := &proc{name: name, cmd: cmd, in: in, out: bufio.NewReaderSize(out, 1<<20)}
	p.cond = sync.NewCond(&p.mu)
	// the solver's output is drained continuously so that it can never block
	// on a full pipe while we are still writing definitions
	go func() {
		for {
			line, err := p.out.ReadString('\n')
			p.mu.Lock()
			if line != "" {
				p.lines = append(p.lines, line)
			}
			if err != nil {
				p.eof = true
				p.cond.Broadcast()
				p.mu.Unlock()
				return
			}
			p.cond.Broadcast()
			p.mu.Unlock()
		}
	}()
	return p, nil
}

func (p *proc) send(s string) {
	if p.dead {
		return
	}
	if _, err := io.WriteString(p.in, s); err != nil {
		p.dead = true
	}
}

// readResp returns everything the solver printed up to the marker echoed
// after the last command (responses are thereby re-synchronised even if the
// solver printed unexpected diagnostics earlier).
func (p *proc) readResp() (string, error) {
	p.seq++
	marker := fmt.Sprintf("<<sync-%d>>", p.seq)
	p.send("(echo \"" + marker + "\")\n")
	var sb strings.Builder
	p.mu.Lock()
	defer p.mu.Unlock()
	for {
		for len(p.lines) > 0 {
			l := p.lines[0]
			p.lines = p.lines[1:]
			if strings.Contains(l, marker) {
				return sb.String(), nil
			}
			sb.WriteString(l)
		}
		if p.eof || p.dead {
			p.dead = true
			return sb.String(), io.EOF
		}
		p.cond.Wait()
	}
}

func (p *proc) kill() {
	if p.cmd != nil && p.cmd.Process != nil {
		p.in.Close()
		p.cmd.Process.Kill()
		p.cmd.Wait()
	}
	p.mu.Lock()
	p.dead = true
	p.cond.Broadcast()
	p.mu.Unlock()
}

// Solver is a per-worker incremental solving context for one path at a time.
// The primary back end is a persistent incremental process; when it answers
// unknown the whole context is replayed one-shot on the fallback back ends.
type Solver struct {
	primaryArgv []string
	primaryName string
	p           *proc
	pr          *Printer
	script      strings.Builder // everything sent since path start (for fallbacks)
	asserted    int
	TimeoutMs   int
	FallbackMs  int
	Stats       Stats
	CrossCheck  bool // re-decide unsat verdicts with a second solver
	inPath      bool
	crossSeen   int
	Log         io.Writer
}

func NewSolver(timeoutMs, fallbackMs int) *Solver {
	s := &Solver{TimeoutMs: timeoutMs, FallbackMs: fallbackMs}
	s.primaryName = "z3-new"
	s.primaryArgv = []string{"z3-new", "-in"}
	s.Stats.ByBackend = map[string]int{}
	return s
}

func (s *Solver) ensure() error {
	if s.p != nil && !s.p.dead {
		return nil
	}
	p, err := startProc(s.primaryName, s.primaryArgv)
	if err != nil {
		return err
	}
	s.p = p
	s.p.send("(set-option :print-success false)\n(set-option :produce-models true)\n")
	s.p.send(fmt.Sprintf("(set-option :timeout %d)\n", s.TimeoutMs))
	return nil
}

func (s *Solver) Close() {
	if s.p != nil {
		s.p.kill()
	}
}

// BeginPath starts a fresh assertion context.
func (s *Solver) BeginPath() {
	s.ensure()
	if s.inPath {
		s.EndPath()
	}
	s.pr = NewPrinter()
	s.script.Reset()
	s.p.send("(push 1)\n")
	s.inPath = true
}

func (s *Solver) EndPath() {
	if !s.inPath {
		return
	}
	if s.p != nil && !s.p.dead {
		s.p.send("(pop 1)\n")
	}
	s.inPath = false
}

func (s *Solver) emit(txt string) {
	s.script.WriteString(txt)
	if tee := os.Getenv("SYMGO_TEE"); tee != "" {
		if f, err := os.OpenFile(tee, os.O_APPEND|os.O_CREATE|os.O_WRONLY, 0o644); err == nil {
			f.WriteString(txt)
			f.Close()
		}
	}
	s.p.send(txt)
}

// Assert adds a permanent (for this path) constraint.
func (s *Solver) Assert(t *Term) {
	ref := s.pr.Ref(t)
	s.emit(s.pr.Flush())
	s.emit("(assert " + ref + ")\n")
}

var valueRe = regexp.MustCompile(`\(\s*(\|[^|]*\||[^\s()]+)\s+(#x[0-9a-fA-F]+|#b[01]+|true|false|\(fp\s+#b[01]+\s+#b[01]+\s+#b[01]+\)|\(_\s+[+-]?(?:zero|oo|NaN)\s+\d+\s+\d+\))\s*\)`)

func parseModel(resp string, vars map[string]Sort) map[string]uint64 {
	m := map[string]uint64{}
	for _, g := range valueRe.FindAllStringSubmatch(resp, -1) {
		name := strings.TrimPrefix(strings.Trim(g[1], "|"), "v.")
		val := g[2]
		var v uint64
		switch {
		case val == "true":
			v = 1
		case val == "false":
			v = 0
		case strings.HasPrefix(val, "#x"):
			v, _ = strconv.ParseUint(val[2:], 16, 64)
		case strings.HasPrefix(val, "#b"):
			v, _ = strconv.ParseUint(val[2:], 2, 64)
		case strings.HasPrefix(val, "(fp"):
			f := strings.Fields(strings.Trim(val, "()"))
			sg, _ := strconv.ParseUint(f[1][2:], 2, 64)
			ex, _ := strconv.ParseUint(f[2][2:], 2, 64)
			mn, _ := strconv.ParseUint(f[3][2:], 2, 64)
			v = sg<<63 | ex<<52 | mn
		case strings.HasPrefix(val, "(_"):
			f := strings.Fields(strings.Trim(val, "()"))
			switch strings.TrimLeft(f[1], "+-") {
			case "zero":
				v = 0
			case "oo":
				v = 0x7ff << 52
			case "NaN":
				v = 0x7ff8 << 48
			}
			if strings.HasPrefix(f[1], "-") {
				v |= 1 << 63
			}
		}
		m[name] = v
	}
	return m
}

// Check decides pc ∧ extra. With wantModel a model over all declared
// variables is returned on sat.
func (s *Solver) Check(extra *Term, wantModel bool) (Verdict, map[string]uint64) {
	return s.CheckX(extra, wantModel, false)
}

// CheckX is Check; with isAssert (an assertion verdict, not a feasibility
// probe) an unsat answer is re-decided on a second solver when CrossCheck is on.
func (s *Solver) CheckX(extra *Term, wantModel bool, isAssert bool) (Verdict, map[string]uint64) {
	start := time.Now()
	s.Stats.Queries++
	defer func() {
		s.Stats.Wall += time.Since(start)
		if s.Log != nil && time.Since(start) > time.Second {
			fmt.Fprintf(s.Log, "slow query: %.1fs\n", time.Since(start).Seconds())
		}
	}()

	var ref string
	if extra != nil {
		ref = s.pr.Ref(extra)
		s.emit(s.pr.Flush())
	}
	var q strings.Builder
	q.WriteString("(push 1)\n")
	if extra != nil {
		q.WriteString("(assert " + ref + ")\n")
	}
	q.WriteString("(check-sat)\n")
	s.p.send(q.String())
	resp, err := s.readWithDeadline(time.Duration(s.TimeoutMs+400) * time.Millisecond)
	v := Unknown
	r := ""
	for _, l := range strings.Split(resp, "\n") {
		if t := strings.TrimSpace(l); t == "sat" || t == "unsat" || t == "unknown" || t == "timeout" {
			r = t
		}
	}
	if err == nil && !strings.Contains(resp, "(error") {
		switch r {
		case "sat":
			v = Sat
		case "unsat":
			v = Unsat
		}
	} else if err == nil || !strings.Contains(err.Error(), "timeout") {
		s.Stats.Errors++
		if s.Log != nil {
			fmt.Fprintf(s.Log, "solver error: %q err=%v\n", resp, err)
		}
	}
	var model map[string]uint64
	if v == Sat && wantModel {
		model = s.getModel()
		if model == nil {
			v = Unknown
		}
	}
	if !s.p.dead {
		s.p.send("(pop 1)\n")
	}
	if v != Unknown {
		s.Stats.ByBackend[s.primaryName]++
	}
	if v == Unknown {
		s.Stats.Escalated++
		t1 := time.Now()
		v, model = s.fallback(q.String(), wantModel)
		if s.Log != nil {
			fmt.Fprintf(s.Log, "escalated after %.1fs; fallback %.1fs -> %v\n", t1.Sub(start).Seconds(), time.Since(t1).Seconds(), v)
		}
	} else if v == Unsat && s.CrossCheck && isAssert && s.sampleCross() {
		s.Stats.CrossChecked++
		v2, _ := s.oneShot("cvc5", []string{"cvc5", "--produce-models", fmt.Sprintf("--tlimit=%d", s.FallbackMs)}, q.String(), false)
		if v2 == Sat {
			s.Stats.CrossDisagree++
			v = Unknown
		}
	}
	switch v {
	case Sat:
		s.Stats.Sat++
	case Unsat:
		s.Stats.Unsat++
	default:
		s.Stats.Unknown++
	}
	if s.p.dead {
		// restart and replay the path context
		s.p = nil
		if s.ensure() == nil {
			s.p.send("(push 1)\n")
			s.p.send(s.script.String())
		}
	}
	return v, model
}

// readWithDeadline reads one response from the primary; if it does not answer
// in time (z3 does not always honour :timeout while bit-blasting) the process
// is killed and the caller falls back to the one-shot portfolio.
func (s *Solver) readWithDeadline(d time.Duration) (string, error) {
	type rr struct {
		s   string
		err error
	}
	p := s.p
	ch := make(chan rr, 1)
	go func() {
		r, e := p.readResp()
		ch <- rr{r, e}
	}()
	select {
	case r := <-ch:
		return r.s, r.err
	case <-time.After(d):
		p.kill()
		<-ch
		return "", fmt.Errorf("primary solver timeout")
	}
}

// sampleCross: the first 40 assertion verdicts of each worker are re-decided
// on the second solver, then every 25th (process start-up dominates).
func (s *Solver) sampleCross() bool {
	s.crossSeen++
	return s.crossSeen <= 40 || s.crossSeen%25 == 0
}

func (s *Solver) getModel() map[string]uint64 {
	if len(s.pr.VarOrder) == 0 {
		return map[string]uint64{}
	}
	var sb strings.Builder
	sb.WriteString("(get-value (")
	for _, n := range s.pr.VarOrder {
		sb.WriteString(symName(n) + " ")
	}
	for _, n := range s.pr.UFNames {
		sb.WriteString(n + " ")
	}
	sb.WriteString("))\n")
	s.p.send(sb.String())
	resp, err := s.p.readResp()
	if err != nil || strings.Contains(resp, "(error") {
		s.Stats.Errors++
		if s.Log != nil {
			fmt.Fprintf(s.Log, "get-value error: %q err=%v\n", resp, err)
		}
		return nil
	}
	m := parseModel(resp, s.pr.Vars)
	s.liftUFValues(m)
	if len(m) < len(s.pr.VarOrder) {
		s.Stats.Errors++
		if s.Log != nil {
			fmt.Fprintf(s.Log, "get-value incomplete: %d of %d: %q\n", len(m), len(s.pr.VarOrder), resp)
		}
		return nil
	}
	return m
}

type backend struct {
	name string
	argv []string
}

func (s *Solver) fallback(query string, wantModel bool) (Verdict, map[string]uint64) {
	bes := []backend{
		{"cvc5", []string{"cvc5", "--produce-models", fmt.Sprintf("--tlimit=%d", s.FallbackMs)}},
		{"cvc5-int", []string{"cvc5", "--produce-models", "--solve-bv-as-int=sum", fmt.Sprintf("--tlimit=%d", s.FallbackMs)}},
		{"z3", []string{"z3", "-in", fmt.Sprintf("-t:%d", s.FallbackMs)}},
		{"z3-new-long", []string{"z3-new", "-in", fmt.Sprintf("-t:%d", s.FallbackMs)}},
	}
	type ans struct {
		name string
		v    Verdict
		m    map[string]uint64
	}
	ch := make(chan ans, len(bes))
	cancel := make(chan struct{})
	for _, be := range bes {
		be := be
		go func() {
			v, m := s.oneShotC(be.name, be.argv, query, wantModel, cancel)
			ch <- ans{be.name, v, m}
		}()
	}
	res := ans{v: Unknown}
	for range bes {
		a := <-ch
		if a.v != Unknown && res.v == Unknown {
			res = a
			close(cancel)
		}
	}
	if res.v != Unknown {
		s.Stats.ByBackend[res.name]++
	}
	return res.v, res.m
}

func (s *Solver) oneShot(name string, argv []string, query string, wantModel bool) (Verdict, map[string]uint64) {
	return s.oneShotC(name, argv, query, wantModel, nil)
}

func (s *Solver) oneShotC(name string, argv []string, query string, wantModel bool, cancel chan struct{}) (Verdict, map[string]uint64) {
	var sb strings.Builder
	sb.WriteString("(set-option :produce-models true)\n")
	if strings.HasPrefix(name, "cvc5") {
		sb.WriteString("(set-logic ALL)\n")
	}
	sb.WriteString(s.script.String())
	// strip push/pop from query
	for _, line := range strings.Split(query, "\n") {
		if strings.HasPrefix(line, "(push") || strings.HasPrefix(line, "(pop") {
			continue
		}
		sb.WriteString(line + "\n")
	}
	if wantModel && len(s.pr.VarOrder) > 0 {
		sb.WriteString("(get-value (")
		for _, n := range s.pr.VarOrder {
			sb.WriteString(symName(n) + " ")
		}
		for _, n := range s.pr.UFNames {
			sb.WriteString(n + " ")
		}
		sb.WriteString("))\n")
	}
	f, err := os.CreateTemp("", "symgo-*.smt2")
	if err != nil {
		return Unknown, nil
	}
	if os.Getenv("SYMGO_DUMP") == "" {
		defer os.Remove(f.Name())
	}
	f.WriteString(sb.String())
	f.Close()
	av := append([]string{}, argv[1:]...)
	// z3 -in reads stdin; use file form instead
	for i, a := range av {
		if a == "-in" {
			av = append(av[:i], av[i+1:]...)
			break
		}
	}
	av = append(av, f.Name())
	cmd := exec.Command(argv[0], av...)
	done := make(chan struct{})
	var out []byte
	go func() {
		out, _ = cmd.Output()
		close(done)
	}()
	select {
	case <-done:
	case <-cancel:
		if cmd.Process != nil {
			cmd.Process.Kill()
		}
		<-done
		return Unknown, nil
	case <-time.After(time.Duration(s.FallbackMs+5000) * time.Millisecond):
		if cmd.Process != nil {
			cmd.Process.Kill()
		}
		<-done
		return Unknown, nil
	}
	resp := string(out)
	lines := strings.SplitN(strings.TrimSpace(resp), "\n", 2)
	first := strings.TrimSpace(lines[0])
	if first != "sat" && first != "unsat" {
		if strings.Contains(resp, "(error") {
			if s.Log != nil {
				fmt.Fprintf(s.Log, "%s error: %.300q\n", name, resp)
			}
		}
		return Unknown, nil
	}
	switch first {
	case "unsat":
		return Unsat, nil
	case "sat":
		if !wantModel {
			return Sat, nil
		}
		if len(s.pr.VarOrder) == 0 {
			return Sat, map[string]uint64{}
		}
		if len(lines) < 2 || strings.Contains(lines[1], "(error") {
			return Unknown, nil
		}
		m := parseModel(lines[1], s.pr.Vars)
		s.liftUFValues(m)
		if len(m) != len(s.pr.VarOrder) {
			return Unknown, nil
		}
		return Sat, m
	}
	return Unknown, nil
}

// Script returns the SMT-LIB text of the current path context (debugging).
func (s *Solver) Script() string { return s.script.String() }

// liftUFValues moves the values reported for the define-fun names of UF
// applications (t17 ...) to the keys Eval looks them up under.
func (s *Solver) liftUFValues(m map[string]uint64) {
	for i, n := range s.pr.UFNames {
		if v, ok := m[n]; ok {
			m[UFModelKey(s.pr.UFNodes[i])] = v
			delete(m, n)
		}
	}
}

// UFNodes exposes the UF applications asserted so far (for replay tables).
func (s *Solver) UFNodes() []*Term { return s.pr.UFNodes }
