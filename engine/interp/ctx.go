package interp

import (
	"fmt"
	"go/types"
	"sort"
	"strings"

	"symgo/smt"
)

// Decision is one resolved symbolic choice on a path.
type Decision struct {
	Kind byte   // 'b' branch, 'c' concretize
	Val  uint64 // branch: 0/1; concretize: value
}

// WorkItem is a path prefix waiting to be explored.
type WorkItem struct {
	Prefix []Decision
	Model  map[string]uint64 // a model of the prefix's path condition (may be nil)
}

// Violation is an assertion that can fail (sat) on some path.
type Violation struct {
	Label   string
	Class   string
	Msg     string
	Model   map[string]uint64
	Inputs  []InputRec // nondet inputs in creation order with model values
	Path    []Decision
	Panic   bool
	Where   string
}

type InputRec struct {
	Name string `json:"name"`
	Kind string `json:"kind"`
	Bits int    `json:"bits"`
	Val  uint64 `json:"val"`
}

type Reach struct {
	Label  string
	Inputs []InputRec
}

// PathResult summarises one completed path.
type PathResult struct {
	Status     string // "ok", "violation", "pruned", "unsupported", "unwind", "cap", "unknown"
	Detail     string
	Decisions  int
	Instrs     int64
	Asserts    int
	Violations []Violation
	Reached    []Reach
	Observes   []string
	Unknowns   int
	MaxUnwind  int
	NewWork    []WorkItem
	StubsHit   map[string]int
	Funcs      map[string]int64
}

// Ctx is the per-path symbolic state.
type Ctx struct {
	S        *smt.Solver
	Concrete map[string]uint64 // non-nil: concrete replay mode, inputs come from here
	prefix   []Decision
	pos      int
	decs     []Decision
	pcs      []*smt.Term
	synced   int
	model    map[string]uint64 // model of current pcs (nil if unknown)
	memo     map[*smt.Term]uint64
	inputs   []InputRec
	inTerms  []*smt.Term
	nameCnt  map[string]int
	res      *PathResult
	Unwind   int
	InstrCap int64
	MaxConc  int
	loopCnt  map[loopKey]int
	AllocLimit int64
	ufAxioms []*smt.Term
	KnownOK  func(label, class string) bool
	Thorough bool
	lits     map[string]bool
	LoopCut  bool // exceeding the unwinding bound prunes the path (stated cut) instead of failing
	Trace    bool
}

type loopKey struct {
	fr    *frame
	instr interface{}
}

func NewCtx(s *smt.Solver, item WorkItem) *Ctx {
	c := &Ctx{S: s, prefix: item.Prefix, model: item.Model, nameCnt: map[string]int{},
		res: &PathResult{Status: "ok", StubsHit: map[string]int{}, Funcs: map[string]int64{}}, Unwind: 64, InstrCap: 50_000_000, MaxConc: 300,
		loopCnt: map[loopKey]int{}, memo: map[*smt.Term]uint64{}}
	if c.model == nil && len(item.Prefix) == 0 {
		c.model = map[string]uint64{}
	}
	return c
}

func (c *Ctx) Result() *PathResult {
	c.res.Decisions = len(c.decs)
	return c.res
}

func (c *Ctx) freshName(name string) string {
	n := c.nameCnt[name]
	c.nameCnt[name] = n + 1
	if n == 0 {
		return name
	}
	return fmt.Sprintf("%s#%d", name, n)
}

// NewInput creates a nondeterministic scalar input.
func (c *Ctx) NewInput(name string, k types.BasicKind) value {
	nm := c.freshName(name)
	w := kindWidth(k)
	if k == types.Bool {
		w = 1
	}
	if c.Concrete != nil {
		v := c.Concrete[nm]
		c.inputs = append(c.inputs, InputRec{Name: nm, Kind: types.Typ[k].Name(), Bits: w, Val: v})
		return concreteOf(k, v)
	}
	t := smt.Var(nm, sortOfKind(k))
	c.inputs = append(c.inputs, InputRec{Name: nm, Kind: types.Typ[k].Name(), Bits: w})
	c.inTerms = append(c.inTerms, t)
	return sym{k, t}
}

func (c *Ctx) sync() {
	for c.synced < len(c.pcs) {
		c.S.Assert(c.pcs[c.synced])
		c.synced++
	}
}

func (c *Ctx) addPC(t *smt.Term) {
	if t.IsTrue() {
		return
	}
	c.pcs = append(c.pcs, t)
	c.learn(t, true)
}

// learn records literals implied by an asserted constraint so that repeated
// tests of the same condition need no solver query.
func (c *Ctx) learn(t *smt.Term, val bool) {
	if c.lits == nil {
		c.lits = map[string]bool{}
	}
	if t.Op == smt.ONot {
		c.learn(t.Args[0], !val)
		return
	}
	if val && t.Op == smt.OAnd {
		c.learn(t.Args[0], true)
		c.learn(t.Args[1], true)
		return
	}
	if !val && t.Op == smt.OOr {
		c.learn(t.Args[0], false)
		c.learn(t.Args[1], false)
		return
	}
	if len(t.Key()) < 4096 {
		c.lits[t.Key()] = val
	}
}

// implied reports whether cond's truth value follows syntactically from the
// path condition.
func (c *Ctx) implied(cond *smt.Term) (val bool, ok bool) {
	if c.lits == nil {
		return false, false
	}
	neg := false
	for cond.Op == smt.ONot {
		cond = cond.Args[0]
		neg = !neg
	}
	if len(cond.Key()) >= 4096 {
		return false, false
	}
	v, ok := c.lits[cond.Key()]
	if !ok {
		return false, false
	}
	return v != neg, true
}

// evalModel evaluates t under the current model.
func (c *Ctx) evalModel(t *smt.Term) (uint64, bool) {
	if c.model == nil {
		return 0, false
	}
	return smt.Eval(t, c.model, c.memo)
}

func (c *Ctx) setModel(m map[string]uint64) {
	c.model = m
	c.memo = map[*smt.Term]uint64{}
}

// check decides pcs ∧ extra.
func (c *Ctx) check(extra *smt.Term, wantModel bool) (smt.Verdict, map[string]uint64) {
	c.sync()
	v, m := c.S.Check(extra, wantModel)
	if v == smt.Unknown {
		c.res.Unknowns++
	}
	return v, m
}

// Branch resolves a symbolic condition, forking if both sides are feasible.
func (c *Ctx) Branch(cond *smt.Term, why string) bool {
	if cond.IsConst() {
		return cond.Val != 0
	}
	if c.pos < len(c.prefix) {
		d := c.prefix[c.pos]
		c.pos++
		if d.Kind != 'b' {
			panic(engineAbort{"unsupported", "nondeterministic replay: expected branch decision at " + why})
		}
		c.decs = append(c.decs, d)
		if d.Val != 0 {
			c.addPC(cond)
		} else {
			c.addPC(smt.Not(cond))
		}
		return d.Val != 0
	}
	c.pos++
	// new decision
	if v, ok := c.implied(cond); ok {
		var d uint64
		if v {
			d = 1
		}
		c.decs = append(c.decs, Decision{'b', d})
		return v
	}
	var side bool
	known := false
	if v, ok := c.evalModel(cond); ok {
		side, known = v != 0, true
	}
	if !known {
		v, m := c.check(cond, true)
		switch v {
		case smt.Sat:
			side, known = true, true
			c.setModel(m)
		case smt.Unsat:
			// only false side is feasible
			c.decs = append(c.decs, Decision{'b', 0})
			c.addPC(smt.Not(cond))
			c.model = nil
			return false
		default:
			// cannot decide the true side: explore both, conservatively
			c.queue(Decision{'b', 0}, nil)
			c.decs = append(c.decs, Decision{'b', 1})
			c.addPC(cond)
			c.model = nil
			return true
		}
	}
	// side is feasible (model witnesses it). Check the other one.
	other := cond
	if side {
		other = smt.Not(cond)
	}
	v, m := c.check(other, true)
	var od uint64
	if !side {
		od = 1
	}
	switch v {
	case smt.Sat:
		c.queue(Decision{'b', od}, m)
	case smt.Unknown:
		c.queue(Decision{'b', od}, nil)
	}
	var sd uint64
	if side {
		sd = 1
	}
	c.decs = append(c.decs, Decision{'b', sd})
	if side {
		c.addPC(cond)
	} else {
		c.addPC(smt.Not(cond))
	}
	return side
}

func (c *Ctx) queue(d Decision, m map[string]uint64) {
	p := make([]Decision, len(c.decs)+1)
	copy(p, c.decs)
	p[len(c.decs)] = d
	c.res.NewWork = append(c.res.NewWork, WorkItem{Prefix: p, Model: m})
}

// Concretize picks a concrete value for t, forking over all feasible values.
func (c *Ctx) Concretize(t *smt.Term, why string) uint64 {
	if t.IsConst() {
		return t.Val
	}
	if c.pos < len(c.prefix) {
		d := c.prefix[c.pos]
		c.pos++
		if d.Kind != 'c' {
			panic(engineAbort{"unsupported", "nondeterministic replay: expected concretize decision at " + why})
		}
		c.decs = append(c.decs, d)
		c.addPC(smt.Eq(t, constLike(t, d.Val)))
		return d.Val
	}
	c.pos++
	var vals []uint64
	var models []map[string]uint64
	if v, ok := c.evalModel(t); ok {
		vals = append(vals, v)
		models = append(models, c.model)
	}
	excl := smt.True
	for _, v := range vals {
		excl = smt.And(excl, smt.Not(smt.Eq(t, constLike(t, v))))
	}
	for {
		if len(vals) > c.MaxConc {
			panic(engineAbort{"unsupported", fmt.Sprintf("concretize(%s): more than %d feasible values", why, c.MaxConc)})
		}
		v, m := c.check(excl, true)
		if v == smt.Unsat {
			break
		}
		if v == smt.Unknown {
			panic(engineAbort{"unknown", "concretize(" + why + "): solver unknown"})
		}
		// evaluate t under m
		val, ok := smt.Eval(t, m, map[*smt.Term]uint64{})
		if !ok {
			panic(engineAbort{"unsupported", "concretize(" + why + "): cannot evaluate term under model"})
		}
		vals = append(vals, val)
		models = append(models, m)
		excl = smt.And(excl, smt.Not(smt.Eq(t, constLike(t, val))))
	}
	if len(vals) == 0 {
		panic(engineAbort{"pruned", "concretize(" + why + "): no feasible value"})
	}
	for i := 1; i < len(vals); i++ {
		c.queue(Decision{'c', vals[i]}, models[i])
	}
	c.decs = append(c.decs, Decision{'c', vals[0]})
	c.addPC(smt.Eq(t, constLike(t, vals[0])))
	if models[0] != nil {
		c.setModel(models[0])
	}
	return vals[0]
}

func constLike(t *smt.Term, v uint64) *smt.Term {
	switch t.S.K {
	case smt.KBool:
		return smt.Bool(v != 0)
	case smt.KBV:
		return smt.Const(t.S.W, v)
	}
	return smt.F64Const(0) // not used
}

// Assume adds a constraint; the path is pruned if it becomes infeasible.
func (c *Ctx) Assume(cond *smt.Term) {
	if cond.IsTrue() {
		return
	}
	if cond.IsFalse() {
		panic(engineAbort{"pruned", "assume(false)"})
	}
	if c.pos < len(c.prefix) {
		// within the replayed prefix the assumption was feasible
		c.addPC(cond)
		return
	}
	if v, ok := c.evalModel(cond); ok && v != 0 {
		c.addPC(cond)
		return
	}
	v, m := c.check(cond, true)
	switch v {
	case smt.Unsat:
		panic(engineAbort{"pruned", "assume infeasible"})
	case smt.Sat:
		c.setModel(m)
	default:
		c.model = nil
	}
	c.addPC(cond)
}

func (c *Ctx) snapshotInputs(m map[string]uint64) []InputRec {
	r := make([]InputRec, len(c.inputs))
	copy(r, c.inputs)
	if c.Concrete != nil {
		return r
	}
	for i := range r {
		if m != nil {
			r[i].Val = m[r[i].Name]
		}
	}
	// the solver's interpretation of every uninterpreted function at the argument
	// values of this model, so that the concrete replay computes with the same function
	if m != nil && c.S != nil {
		memo := map[*smt.Term]uint64{}
		seen := map[string]bool{}
		for _, t := range c.S.UFNodes() {
			v, ok := smt.Eval(t, m, memo)
			if !ok {
				continue
			}
			args := make([]*smt.Term, len(t.Args))
			good := true
			for i, a := range t.Args {
				av, ok := smt.Eval(a, m, memo)
				if !ok {
					good = false
					break
				}
				args[i] = &smt.Term{Op: smt.OConst, S: a.S, Val: av}
			}
			if !good {
				continue
			}
			k := smt.UFModelKey(smt.UF(t.Name, t.S, args...))
			if !seen[k] {
				seen[k] = true
				r = append(r, InputRec{Name: k, Kind: "uf", Bits: t.S.W, Val: v})
			}
		}
	}
	return r
}

// Assert checks that cond holds on the current path for every input.
func (c *Ctx) Assert(cond *smt.Term, label, class, where string) {
	c.res.Asserts++
	if cond.IsTrue() {
		return
	}
	if c.pos < len(c.prefix) {
		// already decided on a previous visit: the continuation assumes it held
		c.addPC(cond)
		return
	}
	var v smt.Verdict
	var m map[string]uint64
	if cond.IsFalse() {
		v = smt.Sat
		m = c.model
		if m == nil {
			v, m = c.check(nil, true)
		}
	} else if mv, ok := c.evalModel(cond); ok && mv == 0 {
		v, m = smt.Sat, c.model
	} else {
		c.sync()
		v, m = c.S.CheckX(smt.Not(cond), true, true)
		if v == smt.Unknown {
			c.res.Unknowns++
		}
	}
	switch v {
	case smt.Sat:
		c.res.Violations = append(c.res.Violations, Violation{Label: label, Class: class, Model: m,
			Inputs: c.snapshotInputs(m), Path: append([]Decision{}, c.decs...), Where: where})
		if c.res.Status == "ok" {
			c.res.Status = "violation"
		}
		if cond.IsFalse() {
			panic(engineAbort{"stop", "assertion fails on every input of this path"})
		}
		// continue on the side where it holds, if any
		if mv, ok := c.evalModel(cond); ok && mv != 0 {
			c.addPC(cond)
			return
		}
		v2, m2 := c.check(cond, true)
		if v2 == smt.Unsat {
			panic(engineAbort{"stop", "assertion fails on every input of this path"})
		}
		if v2 == smt.Sat {
			c.setModel(m2)
		} else {
			c.model = nil
		}
		c.addPC(cond)
	case smt.Unsat:
		c.addPC(cond)
	default:
		c.res.Status = "unknown"
		c.res.Detail = "assert " + label + ": solver unknown at " + where
		c.addPC(cond)
	}
}

// ReachWitness records that label is reachable with concrete inputs.
func (c *Ctx) ReachWitness(label string) {
	if c.pos < len(c.prefix) {
		return
	}
	m := c.model
	if m == nil && c.Concrete == nil {
		v, mm := c.check(nil, true)
		if v != smt.Sat {
			return
		}
		c.setModel(mm)
		m = mm
	}
	c.res.Reached = append(c.res.Reached, Reach{Label: label, Inputs: c.snapshotInputs(m)})
}

// PanicWitness returns concrete inputs for the current path.
func (c *Ctx) CurrentInputs() (map[string]uint64, []InputRec) {
	m := c.model
	if m == nil && c.Concrete == nil {
		v, mm := c.check(nil, true)
		if v == smt.Sat {
			c.setModel(mm)
			m = mm
		}
	}
	return m, c.snapshotInputs(m)
}

func (c *Ctx) AddViolation(v Violation) {
	c.res.Violations = append(c.res.Violations, v)
	if c.res.Status == "ok" {
		c.res.Status = "violation"
	}
}

func (c *Ctx) Decs() []Decision { return append([]Decision{}, c.decs...) }

func (c *Ctx) loopTick(fr *frame, instr interface{}) {
	k := loopKey{fr, instr}
	c.loopCnt[k]++
	n := c.loopCnt[k]
	if n > c.res.MaxUnwind {
		c.res.MaxUnwind = n
	}
	if n > c.Unwind {
		if c.LoopCut {
			panic(engineAbort{"loopcut", fmt.Sprintf("loop cut after %d iterations (stated outside the claim)", c.Unwind)})
		}
		panic(engineAbort{"unwind", fmt.Sprintf("symbolic branch taken more than %d times in one activation (%v)", c.Unwind, instr)})
	}
}

func FormatInputs(in []InputRec) string {
	var sb strings.Builder
	for i, r := range in {
		if i > 0 {
			sb.WriteString(" ")
		}
		fmt.Fprintf(&sb, "%s=%#x", r.Name, r.Val)
	}
	return sb.String()
}

func sortedKeys(m map[string]int) []string {
	var ks []string
	for k := range m {
		ks = append(ks, k)
	}
	sort.Strings(ks)
	return ks
}

// AssertPossible checks that cond is satisfiable together with the path
// condition ("the two values are not forced to be equal"): unsat is a violation.
// It adds nothing to the path condition. In concrete mode (and for a concrete
// cond) it fails iff cond is false.
func (c *Ctx) AssertPossible(cond *smt.Term, label, class, where string) {
	c.res.Asserts++
	if cond.IsTrue() {
		return
	}
	if c.pos < len(c.prefix) {
		return // decided on a previous visit of this prefix
	}
	viol := func() {
		m := c.model
		if m == nil {
			_, m = c.check(nil, true)
		}
		c.res.Violations = append(c.res.Violations, Violation{Label: label, Class: class, Model: m,
			Inputs: c.snapshotInputs(m), Path: append([]Decision{}, c.decs...), Where: where})
		if c.res.Status == "ok" {
			c.res.Status = "violation"
		}
	}
	if cond.IsFalse() {
		viol()
		return
	}
	if mv, ok := c.evalModel(cond); ok && mv != 0 {
		return
	}
	switch v, _ := c.check(cond, false); v {
	case smt.Sat:
	case smt.Unsat:
		viol()
	default:
		c.res.Status = "unknown"
		c.res.Detail = "assert-possible " + label + ": solver unknown at " + where
	}
}
