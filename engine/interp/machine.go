package interp

import (
	"fmt"
	"go/token"
	"go/types"
	"runtime"
	"sort"
	"strings"

	"golang.org/x/tools/go/ssa"

	"symgo/smt"
)

// Machine is the shared, read-only part of the engine: the SSA program and
// the package-initialisation policy.
type Machine struct {
	Prog      *ssa.Program
	Sizes     types.Sizes
	MainPkg   *ssa.Package // the package whose init is run (utls)
	initAllow map[string]bool
	initDeny  map[string]bool
	rtErrStr  types.Type
	globals   []*ssa.Global
	Trace     bool
}

var defaultInitAllow = []string{
	"errors", "io", "bytes", "bufio", "strings", "strconv", "sort", "slices", "maps",
	"encoding/binary", "encoding/hex", "encoding/base64", "container/list", "math/rand", "math/bits", "math",
	"unicode/utf8", "unicode", "net/netip", "net", "crypto", "hash", "io/fs", "context", "time", "sync", "sync/atomic",
	"golang.org/x/crypto/cryptobyte", "golang.org/x/crypto/cryptobyte/asn1", "fmt", "os", "syscall", "internal/oserror",
	"crypto/x509", "crypto/tls", "encoding/asn1", "encoding/pem", "internal/godebug", "crypto/internal/boring",
	"golang.org/x/net/http2/hpack", "compress/flate", "compress/zlib", "crypto/cipher", "crypto/aes", "crypto/des",
	"crypto/hmac", "crypto/sha1", "crypto/sha256", "crypto/sha512", "crypto/md5", "crypto/rc4", "crypto/ecdh", "crypto/elliptic",
	"golang.org/x/crypto/chacha20poly1305", "golang.org/x/crypto/hkdf", "golang.org/x/crypto/sha3", "crypto/rand",
}

func NewMachine(prog *ssa.Program, mainPkg *ssa.Package, sizes types.Sizes, extraAllow []string) *Machine {
	m := &Machine{Prog: prog, Sizes: sizes, MainPkg: mainPkg, initAllow: map[string]bool{}, initDeny: map[string]bool{}}
	for _, p := range defaultInitAllow {
		m.initAllow[p] = true
	}
	for _, p := range extraAllow {
		m.initAllow[p] = true
	}
	if rp := prog.ImportedPackage("runtime"); rp != nil {
		m.rtErrStr = rp.Type("errorString").Object().Type()
	}
	for _, pkg := range prog.AllPackages() {
		for _, mem := range pkg.Members {
			if g, ok := mem.(*ssa.Global); ok {
				m.globals = append(m.globals, g)
			}
		}
	}
	return m
}

func (m *Machine) InitAllowed(path string) bool {
	if m.initDeny[path] {
		return false
	}
	if m.initAllow[path] {
		return true
	}
	if strings.HasPrefix(path, "github.com/refraction-networking/utls") {
		return true
	}
	return false
}

// RunPath executes harness once under ctx and classifies the outcome.
func (m *Machine) RunPath(c *Ctx, harness *ssa.Function, stubs map[string]*ssa.Function) (res *PathResult) {
	i := &interpreter{
		prog:               m.Prog,
		globals:            make(map[*ssa.Global]*value, len(m.globals)),
		sizes:              m.Sizes,
		goroutines:         1,
		c:                  c,
		m:                  m,
		stubs:              stubs,
		runtimeErrorString: m.rtErrStr,
		mutexHeld:          map[*value]int{},
	}
	if m.Trace {
		i.mode |= EnableTracing
	}
	for _, g := range m.globals {
		cell := zero(mustDeref(g.Type()))
		i.globals[g] = &cell
	}
	res = c.res
	defer func() {
		res.Instrs = i.instrs
		res.Decisions = len(c.decs)
		p := recover()
		if p == nil {
			return
		}
		switch p := p.(type) {
		case engineAbort:
			switch p.kind {
			case "stop":
				// path ended after a violation that holds for all inputs
			case "pruned", "loopcut":
				if res.Status == "ok" {
					res.Status = p.kind
				}
				res.Detail = p.msg
			default:
				if res.Status == "ok" || res.Status == "violation" {
					res.Status = p.kind
				}
				res.Detail = p.msg + i.panicTrace
			}
		case targetPanic:
			m.recordPanic(c, res, "panic: "+panicString(p.v)+i.panicTrace)
		case runtime.Error:
			if _, isTA := p.(*runtime.TypeAssertionError); isTA {
				res.Status = "unsupported"
				res.Detail = "engine type confusion: " + p.Error() + "\n" + shortStack()
				return
			}
			if _, isRt := p.(rtError); !isRt {
				// native Go runtime error inside the interpreter: either the
				// target's implicit panic (index, nil deref) or an engine bug.
				msg := p.Error()
				if !(strings.Contains(msg, "index out of range") || strings.Contains(msg, "slice bounds out of range") ||
					strings.Contains(msg, "nil pointer dereference") || strings.Contains(msg, "divide by zero") ||
					strings.Contains(msg, "nil map") || strings.Contains(msg, "makeslice") || strings.Contains(msg, "close of") || strings.Contains(msg, "makechan")) {
					res.Status = "unsupported"
					res.Detail = "engine runtime error: " + msg + "\n" + shortStack()
					return
				}
			}
			m.recordPanic(c, res, "panic: "+p.Error()+i.panicTrace)
		default:
			res.Status = "unsupported"
			res.Detail = fmt.Sprintf("interpreter panic: %v\n%s", p, shortStack())
		}
	}()

	i.inInit = true
	call(i, nil, token.NoPos, m.MainPkg.Func("init"), nil)
	i.inInit = false
	i.instrs = 0
	i.panicTrace = ""
	call(i, nil, token.NoPos, harness, nil)
	return res
}

func shortStack() string {
	buf := make([]byte, 1<<14)
	n := runtime.Stack(buf, false)
	lines := strings.Split(string(buf[:n]), "\n")
	var out []string
	for _, l := range lines {
		if strings.Contains(l, "symgo/") && !strings.Contains(l, "runFrame") && !strings.Contains(l, "callSSA") && !strings.Contains(l, "visitInstr") {
			out = append(out, strings.TrimSpace(l))
		}
		if len(out) > 12 {
			break
		}
	}
	return strings.Join(out, "\n")
}

func panicString(v value) string {
	if it, ok := v.(iface); ok {
		switch x := it.v.(type) {
		case string:
			return x
		case structure:
			if len(x) > 0 {
				if s, ok := x[0].(string); ok {
					return fmt.Sprintf("(%s) %s", it.t, s)
				}
			}
		case *value:
			if x != nil {
				if st, ok := (*x).(structure); ok && len(st) > 0 {
					if s, ok := st[0].(string); ok {
						return fmt.Sprintf("(%s) %s", it.t, s)
					}
				}
			}
		}
		return fmt.Sprintf("(%s) %s", it.t, toString(it.v))
	}
	return toString(v)
}

func (m *Machine) recordPanic(c *Ctx, res *PathResult, msg string) {
	mm, ins := c.CurrentInputs()
	cls := msg
	if k := strings.Index(cls, "\n"); k >= 0 {
		cls = cls[:k]
	}
	if len(cls) > 120 {
		cls = cls[:120]
	}
	c.AddViolation(Violation{Label: "no-panic", Class: cls, Msg: msg, Model: mm, Inputs: ins, Path: c.Decs(), Panic: true})
}

// tolerantCall runs a call made directly by a package initializer; failures
// yield the zero value ("poison") so that initialisation can continue.
func tolerantCall(fr *frame, instr *ssa.Call) (res value) {
	defer func() {
		if p := recover(); p != nil {
			if ea, ok := p.(engineAbort); ok && (ea.kind == "cap") {
				panic(p)
			}
			fr.i.panicTrace = ""
			if instr.Type() == nil {
				res = nil
				return
			}
			if tup, ok := instr.Type().(*types.Tuple); ok && tup.Len() == 0 {
				res = nil
				return
			}
			res = zero(instr.Type())
		}
	}()
	fn, args := prepareCall(fr, &instr.Call)
	return call(fr.i, fr, instr.Pos(), fn, args)
}

// concInt returns a concrete int64 for v, concretizing symbolic values.
func (fr *frame) concInt(v value, why string) int64 {
	if s, ok := v.(sym); ok {
		bits := fr.ctx().Concretize(s.t, why)
		return asInt64(concreteOf(s.k, bits))
	}
	return asInt64(v)
}

// concIndex bounds-checks idx against n (forking to the panic) and returns a
// concrete index.
func (fr *frame) concIndex(idx value, n int) int64 {
	s, ok := idx.(sym)
	if !ok {
		return asInt64(idx)
	}
	w := kindWidth(s.k)
	var inb *smt.Term
	if kindSigned(s.k) {
		inb = smt.And(smt.Cmp(smt.OSle, smt.Const(w, 0), s.t), smt.Cmp(smt.OSlt, s.t, smt.Const(w, uint64(n))))
	} else {
		inb = smt.Cmp(smt.OUlt, s.t, smt.Const(w, uint64(n)))
	}
	if !fr.ctx().Branch(inb, "index-bounds") {
		panic(runtimeError(fmt.Sprintf("index out of range [symbolic] with length %d", n)))
	}
	return asInt64(concreteOf(s.k, fr.ctx().Concretize(s.t, "index")))
}

// symIndex loads elems[idx]; a symbolic index over scalar elements becomes an
// ite chain instead of a fork.
func symIndex(fr *frame, elems []value, idx value) value {
	s, ok := idx.(sym)
	if !ok {
		return elems[asInt64(idx)]
	}
	n := len(elems)
	w := kindWidth(s.k)
	var inb *smt.Term
	if kindSigned(s.k) {
		inb = smt.And(smt.Cmp(smt.OSle, smt.Const(w, 0), s.t), smt.Cmp(smt.OSlt, s.t, smt.Const(w, uint64(n))))
	} else {
		inb = smt.Cmp(smt.OUlt, s.t, smt.Const(w, uint64(n)))
	}
	if !fr.ctx().Branch(inb, "index-bounds") {
		panic(runtimeError(fmt.Sprintf("index out of range [symbolic] with length %d", n)))
	}
	scalar := n > 0 && n <= 1024
	var k types.BasicKind
	if scalar {
		for i, e := range elems {
			ek, ok := kindOf(e)
			if !ok || (i > 0 && ek != k) {
				scalar = false
				break
			}
			k = ek
		}
	}
	if scalar {
		r := termOf(elems[n-1])
		for i := n - 2; i >= 0; i-- {
			r = smt.Ite(smt.Eq(s.t, smt.Const(w, uint64(i))), termOf(elems[i]), r)
		}
		return mkVal(k, r)
	}
	return elems[asInt64(concreteOf(s.k, fr.ctx().Concretize(s.t, "index")))]
}

// concKey makes a map key concrete (maps are concrete containers).
func (fr *frame) concKey(k value) value {
	switch k := k.(type) {
	case sym:
		return concreteOf(k.k, fr.ctx().Concretize(k.t, "map-key"))
	case symstr:
		bs := make([]byte, len(k))
		for i, b := range k {
			if sb, ok := b.(sym); ok {
				bs[i] = byte(fr.ctx().Concretize(sb.t, "map-key-byte"))
			} else {
				bs[i] = b.(uint8)
			}
		}
		return string(bs)
	case structure:
		out := make(structure, len(k))
		for i := range k {
			out[i] = fr.concKey(k[i])
		}
		return out
	case array:
		out := make(array, len(k))
		for i := range k {
			out[i] = fr.concKey(k[i])
		}
		return out
	case iface:
		return iface{k.t, fr.concKey(k.v)}
	}
	return k
}

// symKeyBox is a map entry whose key is symbolic. Boxes are compared by
// identity by the host map; the path condition guarantees that the keys of
// distinct entries differ.
type symKeyBox struct {
	k  value
	id int
}

func isSymKey(k value) bool {
	switch k.(type) {
	case sym, symstr:
		return true
	}
	return false
}

func keyEqTerm(a, b value) *smt.Term {
	if isStringVal(a) || isStringVal(b) {
		if !isStringVal(a) || !isStringVal(b) {
			return smt.False
		}
		return strEqTerm(a, b)
	}
	ka, oka := kindOf(a)
	kb, okb := kindOf(b)
	if !oka || !okb || ka != kb {
		return smt.False
	}
	return smt.Eq(termOf(a), termOf(b))
}

func sortedBoxes(m map[value]value) []*symKeyBox {
	var bs []*symKeyBox
	for k := range m {
		if b, ok := k.(*symKeyBox); ok {
			bs = append(bs, b)
		}
	}
	sort.Slice(bs, func(i, j int) bool { return bs[i].id < bs[j].id })
	return bs
}

// concKeyIn resolves a (possibly symbolic) key against map m: it returns the
// host-map key of the entry that equals k on this path (forking once per
// candidate entry), or k itself / absentKey{} when no entry matches.
func (fr *frame) concKeyIn(m value, k value) value {
	mm, ok := m.(map[value]value)
	if !ok {
		return fr.concKey(k)
	}
	switch k.(type) {
	case structure, array, iface:
		return fr.concKey(k)
	}
	// symbolic entries first, in insertion order
	for _, b := range sortedBoxes(mm) {
		if fr.ctx().Branch(keyEqTerm(k, b.k), "map-lookup-symbolic-entry") {
			return b
		}
	}
	if !isSymKey(k) {
		return k
	}
	switch kk := k.(type) {
	case sym:
		for _, ck := range sortedMapKeys(mm, kk.k) {
			if fr.ctx().Branch(smt.Eq(kk.t, termOf(ck)), "map-lookup") {
				return ck
			}
		}
	case symstr:
		var keys []string
		for ck := range mm {
			if s, ok := ck.(string); ok && len(s) == len(kk) {
				keys = append(keys, s)
			}
		}
		sortStrings(keys)
		for _, ck := range keys {
			if fr.ctx().Branch(strEqTerm(kk, ck), "map-lookup") {
				return ck
			}
		}
	}
	return absentKey{}
}

// mapUpdateKey returns the host-map key under which m[k] = v must be stored.
func (fr *frame) mapUpdateKey(m value, k value) value {
	mm, ok := m.(map[value]value)
	if !ok {
		return fr.concKey(k)
	}
	hk := fr.concKeyIn(mm, k)
	if _, absent := hk.(absentKey); absent {
		fr.i.boxSeq++
		return &symKeyBox{k: k, id: fr.i.boxSeq}
	}
	return hk
}

type absentKey struct{}

func makeSlice(fr *frame, instr *ssa.MakeSlice) value {
	c := fr.ctx()
	lv, cv := fr.get(instr.Len), fr.get(instr.Cap)
	var ln, cp int64
	if isSym(lv) || isSym(cv) {
		to64 := func(v value) *smt.Term {
			k, _ := kindOf(v)
			t := termOf(v)
			if kindWidth(k) < 64 {
				if kindSigned(k) {
					return smt.Sext(t, 64)
				}
				return smt.Zext(t, 64)
			}
			return t
		}
		tl, tc := to64(lv), to64(cv)
		limit := int64(1 << 20)
		if c.AllocLimit > 0 {
			limit = c.AllocLimit
		}
		neg := smt.Or(smt.Cmp(smt.OSlt, tl, smt.Const(64, 0)), smt.Cmp(smt.OSlt, tc, tl))
		if c.Branch(neg, "makeslice-range") {
			panic(runtimeError("makeslice: len out of range"))
		}
		over := smt.Cmp(smt.OSlt, smt.Const(64, uint64(limit)), tc)
		if c.Branch(over, "alloc-limit") {
			if c.AllocLimit > 0 {
				mm, ins := c.CurrentInputs()
				c.AddViolation(Violation{Label: "alloc-limit", Class: "makeslice", Msg: fmt.Sprintf("allocation above limit %d at %s", limit, fr.i.prog.Fset.Position(instr.Pos())), Model: mm, Inputs: ins, Path: c.Decs()})
				panic(engineAbort{"stop", "allocation limit exceeded"})
			}
			panic(unsupported("symbolic allocation size above %d", limit))
		}
		ln = int64(c.Concretize(tl, "makeslice-len"))
		cp = int64(c.Concretize(tc, "makeslice-cap"))
	} else {
		ln, cp = asInt64(lv), asInt64(cv)
		if c.AllocLimit > 0 && cp > c.AllocLimit {
			mm, ins := c.CurrentInputs()
			c.AddViolation(Violation{Label: "alloc-limit", Class: "makeslice", Msg: fmt.Sprintf("allocation of %d elements above limit %d at %s", cp, c.AllocLimit, fr.i.prog.Fset.Position(instr.Pos())), Model: mm, Inputs: ins, Path: c.Decs()})
			panic(engineAbort{"stop", "allocation limit exceeded"})
		}
		if ln < 0 || cp < ln {
			panic(runtimeError("makeslice: len out of range"))
		}
		if cp > 1<<26 {
			panic(engineAbort{"cap", fmt.Sprintf("allocation of %d elements", cp)})
		}
	}
	sl := make([]value, cp)
	tElt := instr.Type().Underlying().(*types.Slice).Elem()
	z := zero(tElt)
	switch z.(type) {
	case structure, array:
		for i := range sl {
			sl[i] = zero(tElt)
		}
	default:
		for i := range sl {
			sl[i] = z
		}
	}
	fr.i.instrs += cp / 8
	return sl[:ln]
}

func doSelect(fr *frame, instr *ssa.Select) value {
	// Single goroutine: a case is ready iff it can proceed without blocking.
	chosen := -1
	var recv value
	recvOk := false
	for i, st := range instr.States {
		ch, _ := fr.get(st.Chan).(chan value)
		if ch == nil {
			continue
		}
		if st.Dir == types.RecvOnly {
			select {
			case v, ok := <-ch:
				chosen, recv, recvOk = i, v, ok
			default:
			}
		} else {
			select {
			case ch <- fr.get(st.Send):
				chosen = i
			default:
			}
		}
		if chosen >= 0 {
			break
		}
	}
	if chosen < 0 && instr.Blocking {
		panic(unsupported("select would block forever (single goroutine) at %s", fr.i.prog.Fset.Position(instr.Pos())))
	}
	r := tuple{chosen, recvOk}
	for i, st := range instr.States {
		if st.Dir == types.RecvOnly {
			var v value
			if i == chosen && recvOk {
				v = recv
			} else {
				v = zero(st.Chan.Type().Underlying().(*types.Chan).Elem())
			}
			r = append(r, v)
		}
	}
	return r
}

func sortedMapKeys(m map[value]value, k types.BasicKind) []value {
	type kv struct {
		bits uint64
		v    value
	}
	var ks []kv
	for key := range m {
		kk, ok := kindOf(key)
		if !ok || kk != k {
			continue
		}
		ks = append(ks, kv{termOf(key).Val, key})
	}
	sort.Slice(ks, func(i, j int) bool { return ks[i].bits < ks[j].bits })
	out := make([]value, len(ks))
	for i := range ks {
		out[i] = ks[i].v
	}
	return out
}

func sortStrings(s []string) { sort.Strings(s) }
