package interp

import (
	"go/token"
	"go/types"
	"strings"

	"symgo/smt"
)

func init() {
	externals["encoding/binary.Write"] = extBinaryWrite
	externals["(*sync/atomic.Value).Load"] = func(fr *frame, a []value) value {
		v := (*a[0].(*value)).(structure)[0]
		if it, ok := v.(iface); ok {
			return it
		}
		return iface{}
	}
	externals["(*sync/atomic.Value).Store"] = func(fr *frame, a []value) value {
		(*a[0].(*value)).(structure)[0] = a[1]
		return nil
	}
	externals["(*sync/atomic.Value).Swap"] = func(fr *frame, a []value) value {
		st := (*a[0].(*value)).(structure)
		old := st[0]
		st[0] = a[1]
		if it, ok := old.(iface); ok {
			return it
		}
		return iface{}
	}
	externals["(*sync/atomic.Value).CompareAndSwap"] = func(fr *frame, a []value) value {
		st := (*a[0].(*value)).(structure)
		cur, _ := st[0].(iface)
		old := a[1].(iface)
		eq := sameType(cur.t, old.t) && (cur.t == nil || eqTerm(cur.t, cur.v, old.v).IsTrue())
		if eq {
			st[0] = a[2]
		}
		return eq
	}
}

// scalarBytes renders an integer scalar (concrete or symbolic) as bytes.
func scalarBytes(v value, big bool) ([]value, bool) {
	k, ok := kindOf(v)
	if !ok {
		return nil, false
	}
	if k == types.Bool {
		t := termOf(v)
		return []value{mkVal(types.Uint8, smt.Ite(t, smt.Const(8, 1), smt.Const(8, 0)))}, true
	}
	if !kindIsInt(k) {
		return nil, false
	}
	w := kindWidth(k)
	t := termOf(v)
	n := w / 8
	out := make([]value, n)
	for i := 0; i < n; i++ {
		b := mkVal(types.Uint8, smt.Extract(t, 8*i+7, 8*i)) // byte i, little endian
		if big {
			out[n-1-i] = b
		} else {
			out[i] = b
		}
	}
	return out, true
}

// encoding/binary.Write for the fixed-size data utls passes (integers, bools,
// slices and arrays of them); the reflection fallback of the real function is
// not encodable.
func extBinaryWrite(fr *frame, a []value) value {
	w := a[0].(iface)
	order := a[1].(iface)
	data := a[2].(iface)
	big := strings.Contains(strings.ToLower(order.t.String()), "bigendian")
	var out []value
	var enc func(v value) bool
	enc = func(v value) bool {
		switch x := v.(type) {
		case []value:
			for _, e := range x {
				if !enc(e) {
					return false
				}
			}
			return true
		case array:
			for _, e := range x {
				if !enc(e) {
					return false
				}
			}
			return true
		case *value:
			if x == nil {
				return false
			}
			return enc(*x)
		}
		bs, ok := scalarBytes(v, big)
		if !ok {
			return false
		}
		out = append(out, bs...)
		return true
	}
	if !enc(data.v) {
		panic(unsupported("encoding/binary.Write of %s", data.t))
	}
	if out == nil {
		out = []value{}
	}
	wr := findMethod(fr, w.t, "Write")
	r := call(fr.i, fr, token.NoPos, wr, []value{w.v, out})
	if tup, ok := r.(tuple); ok && len(tup) == 2 {
		return tup[1]
	}
	return iface{}
}
