package interp

import (
	"fmt"
	"go/types"
	"unsafe"
)

func init() {
	externals["internal/abi.NoEscape"] = func(fr *frame, a []value) value { return a[0] }
	externals["internal/abi.Escape"] = func(fr *frame, a []value) value { return a[0] }
	externals["unsafe.String"] = nil
	delete(externals, "unsafe.String")
	_ = unsafe.Pointer(nil)
}

func init() {
	externals[utlsPath+".verifConcretizeU16"] = extVerifConcretize
}

// NIST-curve public keys: point validation (assembly field arithmetic) is a
// contract model — an uncompressed point of the curve's size is accepted.
func init() {
	externals["(*crypto/ecdh.nistCurve).NewPublicKey"] = func(fr *frame, a []value) value {
		key := a[1].([]value)
		c := (*a[0].(*value)).(structure)
		name, _ := c[0].(string)
		want := map[string]int{"P-256": 65, "P-384": 97, "P-521": 133}[name]
		if len(key) != want {
			return tuple{(*value)(nil), mkError(fr, "crypto/ecdh: invalid public key")}
		}
		p := fr.i.prog.ImportedPackage("crypto/ecdh")
		pk := zero(p.Type("PublicKey").Type()).(structure)
		pk[0] = iface{t: typesNewPointer(p.Type("nistCurve").Type()), v: a[0]}
		pk[1] = append([]value{}, key...)
		cell := value(pk)
		return tuple{&cell, iface{}}
	}
	externals["(*crypto/mlkem.DecapsulationKey768).Decapsulate"] = func(fr *frame, a []value) value {
		ct := a[1].([]value)
		if len(ct) != 1088 {
			return tuple{[]value(nil), mkError(fr, "mlkem: invalid ciphertext length")}
		}
		out := make([]value, 32)
		for i := range out {
			out[i] = fr.ctx().NewInput("mlkemshared", kindU8)
		}
		return tuple{out, iface{}}
	}
}

// prefixExternals are matched by prefix (generic instantiations carry their
// type arguments in the function name).
var prefixExternals = map[string]externalFn{}

func init() {
	// TLS 1.3 key schedule entry points: opaque secret objects (HKDF/HMAC are
	// cryptography, outside the encoding).
	mkOpaque := func(fr *frame, a []value) value {
		res := fr.fn.Signature.Results()
		if res.Len() != 1 {
			panic(unsupported("opaque model for %s", fr.fn))
		}
		pt, ok := res.At(0).Type().Underlying().(*types.Pointer)
		if !ok {
			panic(unsupported("opaque model for %s", fr.fn))
		}
		cell := zero(pt.Elem())
		return &cell
	}
	prefixExternals[utlsPath+"/internal/tls13.NewEarlySecret["] = mkOpaque
	prefixExternals[utlsPath+"/internal/tls13.NewEarlySecretFromSecret["] = mkOpaque
	prefixExternals[utlsPath+"/internal/tls13.NewMasterSecretFromSecret["] = mkOpaque
}

// HKDF-Extract and HKDF-Expand-Label are cryptography (hash compression over
// symbolic input): modelled as arbitrary bytes of the requested length,
// memoised on the structural key of the arguments so that equal arguments give
// equal output. The outputs are inputs ("kdf#k"), so counterexamples replay.
func init() {
	memoKey := func(name string, parts ...value) string {
		k := name
		for _, p := range parts {
			switch p := p.(type) {
			case []value:
				k += fmt.Sprintf("|%d:", len(p))
				for _, b := range p {
					k += termOf(b).Key() + ","
				}
			case string:
				k += "|s:" + p
			default:
				k += "|" + termOf(p).Key()
			}
		}
		return k
	}
	arbitrary := func(fr *frame, key string, n int) value {
		i := fr.i
		if i.kdfMemo == nil {
			i.kdfMemo = map[string][]value{}
		}
		if v, ok := i.kdfMemo[key]; ok {
			return append([]value{}, v...)
		}
		out := make([]value, n)
		for j := range out {
			out[j] = fr.ctx().NewInput("kdf", kindU8)
		}
		i.kdfMemo[key] = out
		return append([]value{}, out...)
	}
	prefixExternals[utlsPath+"/internal/tls13.ExpandLabel["] = func(fr *frame, a []value) value {
		n := int(asInt64(a[4]))
		secret, _ := a[1].([]value)
		ctxb, _ := a[3].([]value)
		return arbitrary(fr, memoKey("expandlabel", secret, a[2], ctxb, int64(n)), n)
	}
	prefixExternals[utlsPath+"/internal/hkdf.Extract["] = func(fr *frame, a []value) value {
		secret, _ := a[1].([]value)
		salt, _ := a[2].([]value)
		return arbitrary(fr, memoKey("hkdfextract", secret, salt), 32)
	}
}
