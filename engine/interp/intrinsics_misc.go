package interp

import "unsafe"

func init() {
	externals["internal/abi.NoEscape"] = func(fr *frame, a []value) value { return a[0] }
	externals["internal/abi.Escape"] = func(fr *frame, a []value) value { return a[0] }
	externals["unsafe.String"] = nil
	delete(externals, "unsafe.String")
	_ = unsafe.Pointer(nil)
}

func init() {
	externals[utlsPath+".verifConcretizeU16"] = extVerifConcretize
}
