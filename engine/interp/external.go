// Derived from golang.org/x/tools/go/ssa/interp (BSD-style licence, The Go Authors).

package interp

// Engine intrinsics: functions that cannot be interpreted from source
// (assembly, unsafe, runtime) or whose environment behaviour is modelled.

import (
	"fmt"
	"go/token"
	"go/types"
	"math"
	"strings"
	"unsafe"

	"golang.org/x/tools/go/ssa"

	"symgo/smt"
)

type externalFn func(fr *frame, args []value) value

const utlsPath = "github.com/refraction-networking/utls"

var externals = make(map[string]externalFn)

func lookupExternal(fn *ssa.Function, name string) externalFn {
	if ext := externals[name]; ext != nil {
		return ext
	}
	if strings.Contains(name, "[") {
		for pfx, ext := range prefixExternals {
			if strings.HasPrefix(name, pfx) {
				return ext
			}
		}
	}
	return nil
}

func init() {
	for k, v := range map[string]externalFn{
		// harness API
		utlsPath + ".verifU8":     func(fr *frame, a []value) value { return fr.ctx().NewInput(strArg(a[0]), types.Uint8) },
		utlsPath + ".verifU16":    func(fr *frame, a []value) value { return fr.ctx().NewInput(strArg(a[0]), types.Uint16) },
		utlsPath + ".verifU32":    func(fr *frame, a []value) value { return fr.ctx().NewInput(strArg(a[0]), types.Uint32) },
		utlsPath + ".verifU64":    func(fr *frame, a []value) value { return fr.ctx().NewInput(strArg(a[0]), types.Uint64) },
		utlsPath + ".verifInt":    func(fr *frame, a []value) value { return fr.ctx().NewInput(strArg(a[0]), types.Int) },
		utlsPath + ".verifI64":    func(fr *frame, a []value) value { return fr.ctx().NewInput(strArg(a[0]), types.Int64) },
		utlsPath + ".verifBool":   func(fr *frame, a []value) value { return fr.ctx().NewInput(strArg(a[0]), types.Bool) },
		utlsPath + ".verifF64":    extVerifF64,
		utlsPath + ".verifBytes":  extVerifBytes,
		utlsPath + ".verifString": extVerifString,
		utlsPath + ".verifChoice": extVerifChoice,
		utlsPath + ".verifAssume": extVerifAssume,
		utlsPath + ".verifAssert": extVerifAssert,
		utlsPath + ".verifAssertClass": extVerifAssertClass,
		utlsPath + ".verifAssertPossible": func(fr *frame, a []value) value {
			fr.ctx().AssertPossible(boolTerm(a[0]), strArg(a[1]), strArg(a[2]), callerPos(fr))
			return nil
		},
		utlsPath + ".verifReach":       extVerifReach,
		utlsPath + ".verifObserve":     extVerifObserve,
		utlsPath + ".verifUF":          extVerifUF,
		utlsPath + ".verifUFBytes":     extVerifUFBytes,
		utlsPath + ".verifAllocLimit":  extVerifAllocLimit,
		utlsPath + ".verifChanClosed":  extVerifChanClosed,
		utlsPath + ".verifIsSymbolic":  func(fr *frame, a []value) value { return fr.ctx().Concrete == nil },
		utlsPath + ".verifConcretize":  extVerifConcretize,
		utlsPath + ".verifFail":        extVerifFail,
		utlsPath + ".verifThorough":    func(fr *frame, a []value) value { return fr.ctx().Thorough },
		utlsPath + ".verifAnd": func(fr *frame, a []value) value {
			return mkVal(types.Bool, smt.And(boolTerm(a[0]), boolTerm(a[1])))
		},
		utlsPath + ".verifOr": func(fr *frame, a []value) value {
			return mkVal(types.Bool, smt.Or(boolTerm(a[0]), boolTerm(a[1])))
		},
		utlsPath + ".verifIteU16": func(fr *frame, a []value) value {
			return mkVal(types.Uint16, smt.Ite(boolTerm(a[0]), termOf(a[1]), termOf(a[2])))
		},

		// bytes / strings primitives (assembly in the real build)
		"internal/bytealg.IndexByte":       extIndexByte,
		"internal/bytealg.IndexByteString": extIndexByte,
		"internal/bytealg.Equal":           extBytesEqual,
		"internal/bytealg.Compare":         extBytesCompare,
		"internal/bytealg.CompareString":   extBytesCompare,
		"internal/bytealg.Count":           extCount,
		"internal/bytealg.CountString":     extCount,
		"internal/bytealg.Index":           extIndex,
		"internal/bytealg.IndexString":     extIndex,
		"internal/bytealg.MakeNoZero":      func(fr *frame, a []value) value { return makeByteSlice(int(asInt64(a[0]))) },
		"bytes.Equal":                      extBytesEqual,
		"bytes.IndexByte":                  extIndexByte,
		"strings.IndexByte":                extIndexByte,
		"internal/stringslite.IndexByte":   extIndexByte,
		"bytes.Compare":                    extBytesCompare,
		"strings.Compare":                  extBytesCompare,
		"internal/bytealg.LastIndexByte":       extLastIndexByte,
		"internal/bytealg.LastIndexByteString": extLastIndexByte,
		"(*strings.Builder).String":        extBuilderString,
		"strings.Clone":                    func(fr *frame, a []value) value { return a[0] },
		"internal/stringslite.Clone":       func(fr *frame, a []value) value { return a[0] },
		"crypto/subtle.XORBytes":           extXORBytes,
		"crypto/internal/fips140/subtle.XORBytes": extXORBytes,
		"crypto/subtle.ConstantTimeCompare": extConstantTimeCompare,
		"crypto/internal/fips140/subtle.ConstantTimeCompare": extConstantTimeCompare,

		// math
		"math.Float64bits":     extFloat64bits,
		"math.Float64frombits": extFloat64frombits,
		"math.Float32bits":     func(fr *frame, a []value) value { return math.Float32bits(a[0].(float32)) },
		"math.Float32frombits": func(fr *frame, a []value) value { return math.Float32frombits(a[0].(uint32)) },
		"math.Abs":             func(fr *frame, a []value) value { return math.Abs(a[0].(float64)) },
		"math.Floor":           func(fr *frame, a []value) value { return math.Floor(a[0].(float64)) },
		"math.Ceil":            func(fr *frame, a []value) value { return math.Ceil(a[0].(float64)) },
		"math.Sqrt":            func(fr *frame, a []value) value { return math.Sqrt(a[0].(float64)) },
		"math.Log":             func(fr *frame, a []value) value { return math.Log(a[0].(float64)) },
		"math.Exp":             func(fr *frame, a []value) value { return math.Exp(a[0].(float64)) },
		"math.Inf":             func(fr *frame, a []value) value { return math.Inf(a[0].(int)) },
		"math.NaN":             func(fr *frame, a []value) value { return math.NaN() },
		"math.IsNaN":           extIsNaN,

		// runtime / os
		"runtime.KeepAlive":     extNop,
		"runtime.SetFinalizer":  extNop,
		"runtime.GC":            extNop,
		"runtime.Gosched":       extNop,
		"runtime.GOMAXPROCS":    func(fr *frame, a []value) value { return 1 },
		"runtime.NumCPU":        func(fr *frame, a []value) value { return 1 },
		"runtime.GOROOT":        func(fr *frame, a []value) value { return "/go" },
		"os.Getenv":             func(fr *frame, a []value) value { return "" },
		"os.LookupEnv":          func(fr *frame, a []value) value { return tuple{"", false} },
		"syscall.Getenv":        func(fr *frame, a []value) value { return tuple{"", false} },
		"os.Exit":               func(fr *frame, a []value) value { panic(unsupported("os.Exit")) },
		"time.Sleep":            extNop,
		"time.now":              extTimeNow,
		"time.Now":              extTimeNowT,
		"time.runtimeNano":      func(fr *frame, a []value) value { return int64(1) },
		"runtime.nanotime":      func(fr *frame, a []value) value { return int64(1) },
		"internal/godebug.setUpdate":     extNop,
		"internal/godebug.registerMetric": extNop,
		"internal/godebug.setNewIncNonDefault": extNop,
		"(*internal/godebug.Setting).Value": func(fr *frame, a []value) value { return "" },
		"(*internal/godebug.Setting).IncNonDefault": extNop,
		"internal/cpu.Initialize": extNop,

		// sync
		"(*sync.Mutex).Lock":      extMutexLock,
		"(*sync.Mutex).Unlock":    extMutexUnlock,
		"(*sync.Mutex).TryLock":   func(fr *frame, a []value) value { extMutexLock(fr, a); return true },
		"(*sync.RWMutex).Lock":    extMutexLock,
		"(*sync.RWMutex).Unlock":  extMutexUnlock,
		"(*sync.RWMutex).RLock":   extRLock,
		"(*sync.RWMutex).RUnlock": extRUnlock,
		"(*sync.Pool).Get":        extPoolGet,
		"(*sync.Pool).Put":        extNop,
		"(*sync.WaitGroup).Add":   extNop,
		"(*sync.WaitGroup).Done":  extNop,
		"(*sync.WaitGroup).Wait":  extNop,
		"(*sync.Cond).Broadcast":  extNop,
		"(*sync.Cond).Signal":     extNop,

		// atomics
		"sync/atomic.LoadInt32":   extAtomicLoad,
		"sync/atomic.LoadInt64":   extAtomicLoad,
		"sync/atomic.LoadUint32":  extAtomicLoad,
		"sync/atomic.LoadUint64":  extAtomicLoad,
		"sync/atomic.LoadUintptr": extAtomicLoad,
		"sync/atomic.LoadPointer": extAtomicLoad,
		"sync/atomic.StoreInt32":   extAtomicStore,
		"sync/atomic.StoreInt64":   extAtomicStore,
		"sync/atomic.StoreUint32":  extAtomicStore,
		"sync/atomic.StoreUint64":  extAtomicStore,
		"sync/atomic.StoreUintptr": extAtomicStore,
		"sync/atomic.StorePointer": extAtomicStore,
		"sync/atomic.AddInt32":   extAtomicAdd,
		"sync/atomic.AddInt64":   extAtomicAdd,
		"sync/atomic.AddUint32":  extAtomicAdd,
		"sync/atomic.AddUint64":  extAtomicAdd,
		"sync/atomic.AddUintptr": extAtomicAdd,
		"sync/atomic.SwapInt32":   extAtomicSwap,
		"sync/atomic.SwapInt64":   extAtomicSwap,
		"sync/atomic.SwapUint32":  extAtomicSwap,
		"sync/atomic.SwapUint64":  extAtomicSwap,
		"sync/atomic.SwapPointer": extAtomicSwap,
		"sync/atomic.CompareAndSwapInt32":   extAtomicCAS,
		"sync/atomic.CompareAndSwapInt64":   extAtomicCAS,
		"sync/atomic.CompareAndSwapUint32":  extAtomicCAS,
		"sync/atomic.CompareAndSwapUint64":  extAtomicCAS,
		"sync/atomic.CompareAndSwapUintptr": extAtomicCAS,
		"sync/atomic.CompareAndSwapPointer": extAtomicCAS,
		"sync/atomic.OrUint32":  extAtomicOr,
		"sync/atomic.AndUint32": extAtomicAnd,

		// randomness
		"crypto/rand.Read": extCryptoRandRead,
		"(*crypto/rand.reader).Read": func(fr *frame, a []value) value { return extCryptoRandRead(fr, a[1:]) },
		"crypto/internal/sysrand.Read": func(fr *frame, a []value) value { extCryptoRandRead(fr, a); return nil },
		"crypto/internal/fips140/drbg.Read": func(fr *frame, a []value) value { extCryptoRandRead(fr, a); return nil },
		"crypto/internal/randutil.MaybeReadByte": extNop,
		"crypto/rand.Int": extCryptoRandInt,

		// formatting (opaque)
		"fmt.Sprintf":  extSprintf,
		"fmt.Sprint":   extSprint,
		"fmt.Sprintln": extSprint,
		"fmt.Errorf":   extErrorf,
		"fmt.Println":  func(fr *frame, a []value) value { return tuple{0, iface{}} },
		"fmt.Printf":   func(fr *frame, a []value) value { return tuple{0, iface{}} },
		"fmt.Print":    func(fr *frame, a []value) value { return tuple{0, iface{}} },
		"fmt.Fprintf":  func(fr *frame, a []value) value { return tuple{0, iface{}} },
		"fmt.Fprint":   func(fr *frame, a []value) value { return tuple{0, iface{}} },
		"fmt.Fprintln": func(fr *frame, a []value) value { return tuple{0, iface{}} },
		"log.Printf":   extNop,
		"log.Println":  extNop,
		"log.Print":    extNop,
		"strconv.Itoa": extItoa,

		// errors
		"errors.Is": extErrorsIs,
		"errors.As": extErrorsAs,

		// sort with reflection
		"sort.Slice":       extSortSlice,
		"sort.SliceStable": extSortSlice,
	} {
		externals[k] = v
	}
}

func extNop(fr *frame, args []value) value { return nil }

func strArg(v value) string {
	switch v := v.(type) {
	case string:
		return v
	}
	panic(unsupported("verif* name argument must be a concrete string, got %T", v))
}

func boolTerm(v value) *smt.Term {
	switch v := v.(type) {
	case bool:
		return smt.Bool(v)
	case sym:
		return v.t
	}
	panic(unsupported("boolTerm(%T)", v))
}

func callerPos(fr *frame) string {
	if fr.caller == nil {
		return ""
	}
	// position of the call instruction is not recorded in frames; use function name
	return fr.caller.fn.String()
}

func extVerifF64(fr *frame, a []value) value {
	c := fr.ctx()
	nm := c.freshName(strArg(a[0]))
	if c.Concrete != nil {
		v := c.Concrete[nm]
		c.inputs = append(c.inputs, InputRec{Name: nm, Kind: "float64", Bits: 64, Val: v})
		return math.Float64frombits(v)
	}
	// a float input is a 64-bit pattern reinterpreted, so that models are bit-exact
	bv := smt.Var(nm, smt.BV(64))
	c.inputs = append(c.inputs, InputRec{Name: nm, Kind: "float64", Bits: 64})
	return sym{types.Float64, smt.FFromBits(bv)}
}

func extVerifBytes(fr *frame, a []value) value {
	name := strArg(a[0])
	n := int(fr.concInt(a[1], "verifBytes-len"))
	out := make([]value, n)
	for i := range out {
		out[i] = fr.ctx().NewInput(fmt.Sprintf("%s[%d]", name, i), types.Uint8)
	}
	return out
}

func extVerifString(fr *frame, a []value) value {
	name := strArg(a[0])
	n := int(fr.concInt(a[1], "verifString-len"))
	out := make([]value, n)
	for i := range out {
		out[i] = fr.ctx().NewInput(fmt.Sprintf("%s[%d]", name, i), types.Uint8)
	}
	return mkStr(out)
}

// verifChoice(name, n) returns an int in [0,n), forking over all values.
func extVerifChoice(fr *frame, a []value) value {
	c := fr.ctx()
	n := int(asInt64(a[1]))
	v := c.NewInput(strArg(a[0]), types.Int)
	if s, ok := v.(sym); ok {
		c.Assume(smt.Cmp(smt.OUlt, s.t, smt.Const(64, uint64(n))))
		return int(c.Concretize(s.t, "choice"))
	}
	return v
}

func extVerifAssume(fr *frame, a []value) value {
	fr.ctx().Assume(boolTerm(a[0]))
	return nil
}

func extVerifAssert(fr *frame, a []value) value {
	fr.ctx().Assert(boolTerm(a[0]), strArg(a[1]), "", callerPos(fr))
	return nil
}

func extVerifAssertClass(fr *frame, a []value) value {
	fr.ctx().Assert(boolTerm(a[0]), strArg(a[1]), strArg(a[2]), callerPos(fr))
	return nil
}

func extVerifFail(fr *frame, a []value) value {
	fr.ctx().Assert(smt.False, strArg(a[0]), strArg(a[1]), callerPos(fr))
	return nil
}

func extVerifReach(fr *frame, a []value) value {
	fr.ctx().ReachWitness(strArg(a[0]))
	return nil
}

func extVerifObserve(fr *frame, a []value) value {
	c := fr.ctx()
	if c.Concrete != nil {
		c.res.Observes = append(c.res.Observes, strArg(a[0])+"="+toString(a[1].(iface).v))
	}
	return nil
}

func extVerifAllocLimit(fr *frame, a []value) value {
	fr.ctx().AllocLimit = asInt64(a[0])
	return nil
}

func extVerifChanClosed(fr *frame, a []value) value {
	it := a[0].(iface)
	ch, ok := it.v.(chan value)
	if !ok || ch == nil {
		return false
	}
	select {
	case _, ok := <-ch:
		return !ok
	default:
		return false
	}
}

func extVerifConcretize(fr *frame, a []value) value {
	if s, ok := a[0].(sym); ok {
		return concreteOf(s.k, fr.ctx().Concretize(s.t, "verifConcretize"))
	}
	return a[0]
}

// verifUF(name, args...) uint64: application of an uninterpreted function.
func extVerifUF(fr *frame, a []value) value {
	name := strArg(a[0])
	var ts []*smt.Term
	for _, x := range a[1].([]value) {
		ts = append(ts, termOf(x))
	}
	c := fr.ctx()
	if c.Concrete != nil {
		if v, ok := c.Concrete[smt.UFModelKey(smt.UF("uf_"+name, smt.BV(64), ts...))]; ok {
			return v
		}
		return ufConcrete(name, 0, ts)
	}
	return sym{types.Uint64, smt.UF("uf_"+name, smt.BV(64), ts...)}
}

// verifUFBytes(name, outLen, in []byte) []byte: a deterministic function of the
// input bytes with outLen result bytes (one UF per output position).
func extVerifUFBytes(fr *frame, a []value) value {
	name := strArg(a[0])
	n := int(asInt64(a[1]))
	in := a[2].([]value)
	ts := make([]*smt.Term, len(in))
	for i, x := range in {
		ts[i] = termOf(x)
	}
	out := make([]value, n)
	c := fr.ctx()
	for i := range out {
		ufn := fmt.Sprintf("uf_%s_%d_in%d", name, i, len(in))
		if c.Concrete != nil {
			if v, ok := c.Concrete[smt.UFModelKey(smt.UF(ufn, smt.BV(8), ts...))]; ok {
				out[i] = uint8(v)
				continue
			}
			out[i] = uint8(ufConcrete(name, i, ts).(uint64))
			continue
		}
		out[i] = sym{types.Uint8, smt.UF(ufn, smt.BV(8), ts...)}
	}
	return out
}

// ufConcrete interprets a UF as FNV-1a over its arguments (any deterministic
// function is a valid interpretation).
func ufConcrete(name string, idx int, ts []*smt.Term) value {
	h := uint64(14695981039346656037)
	mix := func(b byte) { h ^= uint64(b); h *= 1099511628211 }
	for i := 0; i < len(name); i++ {
		mix(name[i])
	}
	mix(byte(idx))
	for _, t := range ts {
		if !t.IsConst() {
			panic(unsupported("ufConcrete with symbolic argument"))
		}
		for s := 0; s < 64; s += 8 {
			mix(byte(t.Val >> uint(s)))
		}
	}
	return h
}

// ---- bytes / strings ----

func seqBytes(v value) []value {
	switch v := v.(type) {
	case []value:
		return v
	case string, symstr:
		return strBytes(v)
	}
	panic(unsupported("seqBytes(%T)", v))
}

func makeByteSlice(n int) []value {
	s := make([]value, n)
	for i := range s {
		s[i] = uint8(0)
	}
	return s
}

func extIndexByte(fr *frame, a []value) value {
	b := seqBytes(a[0])
	c := termOf(a[1])
	r := smt.Const(64, ^uint64(0))
	anySym := isSym(a[1])
	for i := len(b) - 1; i >= 0; i-- {
		if isSym(b[i]) {
			anySym = true
		}
		r = smt.Ite(smt.Eq(termOf(b[i]), c), smt.Const(64, uint64(i)), r)
	}
	_ = anySym
	return mkVal(types.Int, r)
}

func extLastIndexByte(fr *frame, a []value) value {
	b := seqBytes(a[0])
	c := termOf(a[1])
	r := smt.Const(64, ^uint64(0))
	for i := 0; i < len(b); i++ {
		r = smt.Ite(smt.Eq(termOf(b[i]), c), smt.Const(64, uint64(i)), r)
	}
	return mkVal(types.Int, r)
}

func extBytesEqual(fr *frame, a []value) value {
	x, y := seqBytes(a[0]), seqBytes(a[1])
	if len(x) != len(y) {
		return false
	}
	r := smt.True
	for i := range x {
		r = smt.And(r, smt.Eq(termOf(x[i]), termOf(y[i])))
	}
	return mkVal(types.Bool, r)
}

func extConstantTimeCompare(fr *frame, a []value) value {
	x, y := seqBytes(a[0]), seqBytes(a[1])
	if len(x) != len(y) {
		return 0
	}
	r := smt.True
	for i := range x {
		r = smt.And(r, smt.Eq(termOf(x[i]), termOf(y[i])))
	}
	return mkVal(types.Int, smt.Ite(r, smt.Const(64, 1), smt.Const(64, 0)))
}

func extBytesCompare(fr *frame, a []value) value {
	x, y := seqBytes(a[0]), seqBytes(a[1])
	lt := strLtTerm(symstr(x), symstr(y))
	gt := strLtTerm(symstr(y), symstr(x))
	return mkVal(types.Int, smt.Ite(lt, smt.Const(64, ^uint64(0)), smt.Ite(gt, smt.Const(64, 1), smt.Const(64, 0))))
}

func extCount(fr *frame, a []value) value {
	b := seqBytes(a[0])
	c := termOf(a[1])
	r := smt.Const(64, 0)
	for i := range b {
		r = smt.Bin(smt.OAdd, r, smt.Ite(smt.Eq(termOf(b[i]), c), smt.Const(64, 1), smt.Const(64, 0)))
	}
	return mkVal(types.Int, r)
}

func extIndex(fr *frame, a []value) value {
	s, sep := seqBytes(a[0]), seqBytes(a[1])
	r := smt.Const(64, ^uint64(0))
	for i := len(s) - len(sep); i >= 0; i-- {
		m := smt.True
		for j := range sep {
			m = smt.And(m, smt.Eq(termOf(s[i+j]), termOf(sep[j])))
		}
		r = smt.Ite(m, smt.Const(64, uint64(i)), r)
	}
	return mkVal(types.Int, r)
}

func extBuilderString(fr *frame, a []value) value {
	b := (*a[0].(*value)).(structure)
	buf, _ := b[1].([]value)
	return mkStr(buf)
}

func extXORBytes(fr *frame, a []value) value {
	dst, x, y := a[0].([]value), a[1].([]value), a[2].([]value)
	n := len(x)
	if len(y) < n {
		n = len(y)
	}
	if n == 0 {
		return 0
	}
	if n > len(dst) {
		panic(targetPanic{iface{types.Typ[types.String], "subtle.XORBytes: dst too short"}})
	}
	for i := 0; i < n; i++ {
		dst[i] = mkVal(types.Uint8, smt.Bin(smt.OBXor, termOf(x[i]), termOf(y[i])))
	}
	return n
}

// ---- math ----

func extFloat64bits(fr *frame, a []value) value {
	if s, ok := a[0].(sym); ok {
		if s.t.Op == smt.OFFromBV {
			return mkVal(types.Uint64, s.t.Args[0])
		}
		panic(unsupported("math.Float64bits of a computed symbolic float"))
	}
	return math.Float64bits(a[0].(float64))
}

func extFloat64frombits(fr *frame, a []value) value {
	if s, ok := a[0].(sym); ok {
		return mkVal(types.Float64, smt.FFromBits(s.t))
	}
	return math.Float64frombits(a[0].(uint64))
}

func extIsNaN(fr *frame, a []value) value {
	if s, ok := a[0].(sym); ok {
		return mkVal(types.Bool, smt.FIsNaN(s.t))
	}
	return math.IsNaN(a[0].(float64))
}

// ---- time ----

func extTimeNow(fr *frame, a []value) value {
	// func now() (sec int64, nsec int32, mono int64)
	return tuple{int64(1790000000), int32(0), int64(1)}
}

func extTimeNowT(fr *frame, a []value) value {
	// time.Time{wall, ext, loc}: wall=0 => ext is seconds since year 1
	const unixToInternal int64 = (1969*365 + 1969/4 - 1969/100 + 1969/400) * 86400
	return structure{uint64(0), int64(1790000000) + unixToInternal, (*value)(nil)}
}

// ---- sync ----

func extMutexLock(fr *frame, a []value) value {
	p := a[0].(*value)
	if fr.i.mutexHeld[p] > 0 {
		panic(unsupported("deadlock: Lock of a mutex already held by the only goroutine (in %s)", fr.caller.fn))
	}
	fr.i.mutexHeld[p] = 1
	return nil
}

func extMutexUnlock(fr *frame, a []value) value {
	p := a[0].(*value)
	if fr.i.mutexHeld[p] != 1 {
		panic(targetPanic{iface{types.Typ[types.String], "fatal error: sync: unlock of unlocked mutex"}})
	}
	delete(fr.i.mutexHeld, p)
	return nil
}

func extRLock(fr *frame, a []value) value {
	p := a[0].(*value)
	if fr.i.mutexHeld[p] == 1 {
		panic(unsupported("deadlock: RLock of a write-locked RWMutex"))
	}
	fr.i.mutexHeld[p] -= 1 // readers counted negatively
	return nil
}

func extRUnlock(fr *frame, a []value) value {
	p := a[0].(*value)
	if fr.i.mutexHeld[p] >= 0 {
		panic(targetPanic{iface{types.Typ[types.String], "fatal error: sync: RUnlock of unlocked RWMutex"}})
	}
	fr.i.mutexHeld[p] += 1
	if fr.i.mutexHeld[p] == 0 {
		delete(fr.i.mutexHeld, p)
	}
	return nil
}

func extPoolGet(fr *frame, a []value) value {
	// type Pool struct { noCopy; local; localSize; victim; victimSize; New func() any }
	p := (*a[0].(*value)).(structure)
	newFn := p[len(p)-1]
	switch f := newFn.(type) {
	case *ssa.Function:
		if f == nil {
			return iface{}
		}
	case nil:
		return iface{}
	}
	return call(fr.i, fr, token.NoPos, newFn, nil)
}

// ---- atomics ----

func extAtomicLoad(fr *frame, a []value) value { return *a[0].(*value) }

func extAtomicStore(fr *frame, a []value) value {
	*a[0].(*value) = a[1]
	return nil
}

func extAtomicAdd(fr *frame, a []value) value {
	p := a[0].(*value)
	*p = binop(fr, token.ADD, nil, *p, a[1])
	return *p
}

func extAtomicOr(fr *frame, a []value) value {
	p := a[0].(*value)
	old := *p
	*p = binop(fr, token.OR, nil, *p, a[1])
	return old
}

func extAtomicAnd(fr *frame, a []value) value {
	p := a[0].(*value)
	old := *p
	*p = binop(fr, token.AND, nil, *p, a[1])
	return old
}

func extAtomicSwap(fr *frame, a []value) value {
	p := a[0].(*value)
	old := *p
	*p = a[1]
	return old
}

func extAtomicCAS(fr *frame, a []value) value {
	p := a[0].(*value)
	var eq bool
	if up, ok := (*p).(unsafe.Pointer); ok {
		eq = up == a[1].(unsafe.Pointer)
	} else {
		t := eqTerm(nil, *p, a[1])
		eq = fr.ctx().Branch(t, "cas")
	}
	if eq {
		*p = a[2]
		return true
	}
	return false
}

// ---- randomness ----

func extCryptoRandRead(fr *frame, a []value) value {
	b := a[0].([]value)
	for i := range b {
		b[i] = fr.ctx().NewInput("crand", types.Uint8)
	}
	return tuple{len(b), iface{}}
}

// ---- formatting ----

func nativeArg(v value) interface{} {
	if it, ok := v.(iface); ok {
		v = it.v
		if it.t == nil {
			return nil
		}
	}
	switch x := v.(type) {
	case bool, int, int8, int16, int32, int64, uint, uint8, uint16, uint32, uint64, uintptr, float32, float64, string:
		return x
	case sym:
		return "<sym>"
	case symstr:
		return "<symstr>"
	case []value:
		bs := make([]byte, 0, len(x))
		for _, e := range x {
			b, ok := e.(uint8)
			if !ok {
				return fmt.Sprintf("<slice len %d>", len(x))
			}
			bs = append(bs, b)
		}
		return bs
	}
	return fmt.Sprintf("<%T>", v)
}

func formatArgs(fr *frame, format string, args []value) string {
	nat := make([]interface{}, len(args))
	for i, x := range args {
		nat[i] = nativeArg(x)
		// error / Stringer values: try Error()/String() methods when concrete
		if it, ok := x.(iface); ok && it.t != nil {
			if s, ok := tryStringMethod(fr, it); ok {
				nat[i] = s
			}
		}
	}
	format = strings.ReplaceAll(format, "%w", "%v")
	return fmt.Sprintf(format, nat...)
}

func tryStringMethod(fr *frame, it iface) (s string, ok bool) {
	defer func() {
		if p := recover(); p != nil {
			if ea, isA := p.(engineAbort); isA && ea.kind != "unsupported" {
				panic(p)
			}
			ok = false
		}
	}()
	for _, name := range []string{"Error", "String"} {
		ms := fr.i.prog.MethodSets.MethodSet(it.t)
		for i := 0; i < ms.Len(); i++ {
			sel := ms.At(i)
			if sel.Obj().Name() != name {
				continue
			}
			sig := sel.Type().(*types.Signature)
			if sig.Params().Len() != 0 || sig.Results().Len() != 1 {
				continue
			}
			fn := fr.i.prog.MethodValue(sel)
			if fn == nil {
				continue
			}
			r := call(fr.i, fr, token.NoPos, fn, []value{it.v})
			if str, isStr := r.(string); isStr {
				return str, true
			}
			return "<symbolic string>", true
		}
	}
	return "", false
}

func extSprintf(fr *frame, a []value) value {
	format, ok := a[0].(string)
	if !ok {
		return "<fmt>"
	}
	args, _ := a[1].([]value)
	return formatArgs(fr, format, args)
}

func extSprint(fr *frame, a []value) value {
	args, _ := a[0].([]value)
	var sb strings.Builder
	for i, x := range args {
		if i > 0 {
			sb.WriteString(" ")
		}
		sb.WriteString(fmt.Sprint(nativeArg(x)))
	}
	return sb.String()
}

func extItoa(fr *frame, a []value) value {
	if s, ok := a[0].(sym); ok {
		v := fr.ctx().Concretize(s.t, "itoa")
		return fmt.Sprint(int(v))
	}
	return fmt.Sprint(a[0].(int))
}

// fmt.Errorf: builds *fmt.wrapError when the format has %w and an error
// argument, else *errors.errorString.
func extErrorf(fr *frame, a []value) value {
	format, _ := a[0].(string)
	args, _ := a[1].([]value)
	msg := formatArgs(fr, format, args)
	prog := fr.i.prog
	if strings.Contains(format, "%w") {
		for _, x := range args {
			it, ok := x.(iface)
			if !ok || it.t == nil {
				continue
			}
			if types.Implements(it.t, errorIface()) {
				if fp := prog.ImportedPackage("fmt"); fp != nil {
					if wt := fp.Type("wrapError"); wt != nil {
						cell := value(structure{msg, it})
						return iface{t: types.NewPointer(wt.Type()), v: &cell}
					}
				}
			}
		}
	}
	ep := prog.ImportedPackage("errors")
	et := ep.Type("errorString")
	cell := value(structure{msg})
	return iface{t: types.NewPointer(et.Type()), v: &cell}
}

func errorIface() *types.Interface {
	return types.Universe.Lookup("error").Type().Underlying().(*types.Interface)
}

// ---- errors.Is / errors.As ----

func findMethod(fr *frame, t types.Type, name string) *ssa.Function {
	ms := fr.i.prog.MethodSets.MethodSet(t)
	for i := 0; i < ms.Len(); i++ {
		sel := ms.At(i)
		if sel.Obj().Name() == name {
			return fr.i.prog.MethodValue(sel)
		}
	}
	return nil
}

func comparableType(t types.Type) bool { return types.Comparable(t) }

func extErrorsIs(fr *frame, a []value) value {
	err, target := a[0].(iface), a[1].(iface)
	if err.t == nil || target.t == nil {
		return sameType(err.t, target.t) && err.t == nil
	}
	return errorsIs(fr, err, target, comparableType(target.t), 0)
}

func errorsIs(fr *frame, err, target iface, cmp bool, depth int) bool {
	if depth > 50 {
		panic(unsupported("errors.Is chain too deep"))
	}
	for {
		if cmp && sameType(err.t, target.t) {
			if fr.ctx().Branch(eqTerm(err.t, err.v, target.v), "errors.Is") {
				return true
			}
		}
		if m := findMethod(fr, err.t, "Is"); m != nil {
			sig := m.Signature
			if sig.Params().Len() == 1 && sig.Results().Len() == 1 {
				r := call(fr.i, fr, token.NoPos, m, []value{err.v, target})
				if rb, ok := r.(bool); ok && rb {
					return true
				} else if rs, ok := r.(sym); ok && fr.ctx().Branch(rs.t, "errors.Is-method") {
					return true
				}
			}
		}
		m := findMethod(fr, err.t, "Unwrap")
		if m == nil {
			return false
		}
		r := call(fr.i, fr, token.NoPos, m, []value{err.v})
		switch r := r.(type) {
		case iface:
			if r.t == nil {
				return false
			}
			err = r
		case []value:
			for _, e := range r {
				ei := e.(iface)
				if ei.t == nil {
					continue
				}
				if errorsIs(fr, ei, target, cmp, depth+1) {
					return true
				}
			}
			return false
		default:
			return false
		}
		depth++
		if depth > 50 {
			panic(unsupported("errors.Is chain too deep"))
		}
	}
}

func extErrorsAs(fr *frame, a []value) value {
	err, target := a[0].(iface), a[1].(iface)
	if err.t == nil {
		return false
	}
	pt, ok := target.t.Underlying().(*types.Pointer)
	if !ok {
		panic(targetPanic{iface{types.Typ[types.String], "errors: target must be a non-nil pointer"}})
	}
	tt := pt.Elem()
	dst := target.v.(*value)
	for depth := 0; depth < 50; depth++ {
		assignable := false
		if it, isI := tt.Underlying().(*types.Interface); isI {
			assignable = types.Implements(err.t, it)
			if assignable {
				*dst = err
				return true
			}
		} else if types.Identical(err.t, tt) {
			*dst = err.v
			return true
		}
		if m := findMethod(fr, err.t, "As"); m != nil && m.Signature.Params().Len() == 1 {
			r := call(fr.i, fr, token.NoPos, m, []value{err.v, target})
			if rb, ok := r.(bool); ok && rb {
				return true
			}
		}
		m := findMethod(fr, err.t, "Unwrap")
		if m == nil {
			return false
		}
		r := call(fr.i, fr, token.NoPos, m, []value{err.v})
		ri, ok := r.(iface)
		if !ok || ri.t == nil {
			return false
		}
		err = ri
	}
	panic(unsupported("errors.As chain too deep"))
}

// sort.Slice(x any, less func(i, j int) bool): insertion sort through the
// interpreter (stable; any correct sort satisfies sort.Slice's contract up to
// the order of equal elements).
func extSortSlice(fr *frame, a []value) value {
	s, ok := a[0].(iface).v.([]value)
	if !ok {
		panic(unsupported("sort.Slice of %T", a[0].(iface).v))
	}
	less := a[1]
	lt := func(i, j int) bool {
		r := call(fr.i, fr, token.NoPos, less, []value{i, j})
		if rs, ok := r.(sym); ok {
			return fr.ctx().Branch(rs.t, "sort-less")
		}
		return r.(bool)
	}
	for i := 1; i < len(s); i++ {
		for j := i; j > 0 && lt(j, j-1); j-- {
			s[j], s[j-1] = s[j-1], s[j]
		}
	}
	return nil
}

// crypto/rand.Int(rand, max): mirrors the real algorithm (read ceil(bitlen/8)
// bytes from the reader, mask the top byte, accept if below max) for the
// first attempt; rejected draws are assumed away (the retry loop only repeats
// the same step with fresh bytes). Only max <= 2^64 is supported. The bytes
// come from the reader argument, so native replay with a scripted
// crypto/rand.Reader consumes exactly the same stream.
func extCryptoRandInt(fr *frame, a []value) value {
	mp := a[1].(*value)
	if mp == nil {
		panic(runtimeError("invalid memory address or nil pointer dereference"))
	}
	bi := (*mp).(structure)
	abs, _ := bi[1].([]value)
	if bi[0].(bool) || len(abs) == 0 {
		panic(targetPanic{iface{types.Typ[types.String], "crypto/rand: argument to Int is <= 0"}})
	}
	if len(abs) > 1 {
		panic(unsupported("crypto/rand.Int with max >= 2^64"))
	}
	mxv, ok := abs[0].(uint)
	if !ok {
		panic(unsupported("crypto/rand.Int with symbolic max"))
	}
	nm1 := uint64(mxv) - 1
	bitLen := 64 - bitsLeadingZeros(nm1)
	if bitLen == 0 {
		cell := value(structure{false, []value(nil)})
		return tuple{&cell, iface{}}
	}
	k := (bitLen + 7) / 8
	b := uint(bitLen % 8)
	if b == 0 {
		b = 8
	}
	buf := makeByteSlice(k)
	rd := a[0].(iface)
	if rd.t == nil {
		panic(runtimeError("invalid memory address or nil pointer dereference"))
	}
	readFn := findMethod(fr, rd.t, "Read")
	call(fr.i, fr, token.NoPos, readFn, []value{rd.v, buf})
	var v *smt.Term
	for i := 0; i < k; i++ {
		bt := termOf(buf[i])
		if i == 0 {
			if b < 8 {
				bt = smt.Extract(bt, int(b)-1, 0)
			}
			v = bt
			continue
		}
		v = smt.Concat(v, bt)
	}
	v = smt.Zext(v, 64)
	fr.ctx().Assume(smt.Cmp(smt.OUlt, v, smt.Const(64, uint64(mxv))))
	cell := value(structure{false, []value{mkVal(types.Uint, v)}})
	return tuple{&cell, iface{}}
}

func bitsLeadingZeros(x uint64) int {
	n := 0
	for i := 63; i >= 0; i-- {
		if x>>uint(i)&1 != 0 {
			break
		}
		n++
	}
	return n
}
