package interp

// Opaque models of key generation: the library produces keys of the
// documented size with arbitrary (symbolic) bytes. Which bytes utls puts
// where is what the properties check; the keys' algebra is not modelled.

import (
	"fmt"
	"go/token"
	"go/types"
)

const tokenAND = token.AND

func init() {
	externals["(*crypto/ecdh.x25519Curve).GenerateKey"] = func(fr *frame, a []value) value {
		return ecdhGenerate(fr, a[0], "x25519Curve", 32, 32)
	}
	externals["(*crypto/ecdh.nistCurve).GenerateKey"] = func(fr *frame, a []value) value {
		c := (*a[0].(*value)).(structure)
		name, _ := c[0].(string)
		switch name {
		case "P-256":
			return ecdhGenerate(fr, a[0], "nistCurve", 32, 65)
		case "P-384":
			return ecdhGenerate(fr, a[0], "nistCurve", 48, 97)
		case "P-521":
			return ecdhGenerate(fr, a[0], "nistCurve", 66, 133)
		}
		panic(unsupported("ecdh GenerateKey for curve %q", name))
	}
	externals["crypto/mlkem.NewDecapsulationKey768"] = func(fr *frame, a []value) value {
		seed := a[0].([]value)
		if len(seed) != 64 {
			return tuple{(*value)(nil), mkError(fr, "mlkem: invalid seed length")}
		}
		p := fr.i.prog.ImportedPackage("crypto/mlkem")
		cell := zero(p.Type("DecapsulationKey768").Type())
		ptr := &cell
		ek := make([]value, 1184)
		for i := range ek {
			ek[i] = fr.ctx().NewInput("mlkempub", types.Uint8)
		}
		fr.i.opaqueBytes()[ptr] = ek
		return tuple{ptr, iface{}}
	}
	externals["(*crypto/mlkem.DecapsulationKey768).EncapsulationKey"] = func(fr *frame, a []value) value {
		dk := a[0].(*value)
		p := fr.i.prog.ImportedPackage("crypto/mlkem")
		cell := zero(p.Type("EncapsulationKey768").Type())
		ptr := &cell
		fr.i.opaqueBytes()[ptr] = fr.i.opaqueBytes()[dk]
		return ptr
	}
	externals["(*crypto/mlkem.EncapsulationKey768).Bytes"] = func(fr *frame, a []value) value {
		b := fr.i.opaqueBytes()[a[0].(*value)]
		return append([]value{}, b...)
	}
}

func (i *interpreter) opaqueBytes() map[*value][]value {
	if i.opaque == nil {
		i.opaque = map[*value][]value{}
	}
	return i.opaque
}

// mkError builds an *errors.errorString value.
func mkError(fr *frame, msg string) value {
	ep := fr.i.prog.ImportedPackage("errors")
	et := ep.Type("errorString")
	cell := value(structure{msg})
	return iface{t: types.NewPointer(et.Type()), v: &cell}
}

// ecdhGenerate models Curve.GenerateKey(rand): a private key object of the
// curve with privLen private and pubLen public bytes, all arbitrary. The
// reader is consumed for privLen bytes (as the real implementations do at
// least once), so the caller's random stream advances.
func ecdhGenerate(fr *frame, curveRecv value, curveType string, privLen, pubLen int) value {
	p := fr.i.prog.ImportedPackage("crypto/ecdh")
	ct := types.NewPointer(p.Type(curveType).Type())
	curve := iface{t: ct, v: curveRecv}
	priv := make([]value, privLen)
	for i := range priv {
		priv[i] = fr.ctx().NewInput("ecdhpriv", types.Uint8)
	}
	pub := make([]value, pubLen)
	for i := range pub {
		pub[i] = fr.ctx().NewInput("ecdhpub", types.Uint8)
	}
	if pubLen != 32 {
		pub[0] = uint8(4) // uncompressed point marker
	}
	pkT := p.Type("PublicKey").Type()
	skT := p.Type("PrivateKey").Type()
	pk := zero(pkT).(structure)
	pk[0] = curve
	pk[1] = pub
	pkCell := value(pk)
	sk := zero(skT).(structure)
	sk[0] = curve
	sk[1] = priv
	sk[2] = &pkCell
	skCell := value(sk)
	_ = fmt.Sprint
	return tuple{&skCell, iface{}}
}

// math/rand's additive lagged Fibonacci source is seeded by ~600 steps of a
// multiplicative LCG: a hash of the seed, not encodable. The source becomes
// "arbitrary 63-bit outputs" (a sound over-approximation of any seed).
func init() {
	externals["(*math/rand.rngSource).Seed"] = extNop
	externals["(*math/rand.rngSource).Int63"] = func(fr *frame, a []value) value {
		v := fr.ctx().NewInput("mrand", types.Int64)
		if s, ok := v.(sym); ok {
			return symBinop(fr, 0+tokenAND, s, int64(0x7fffffffffffffff))
		}
		return v.(int64) & 0x7fffffffffffffff
	}
	externals["(*math/rand.rngSource).Uint64"] = func(fr *frame, a []value) value {
		return fr.ctx().NewInput("mrand", types.Uint64)
	}
}

// HPKE: SetupSender yields an encapsulated key of the KEM's size (32 bytes
// for DHKEM(X25519)) with arbitrary content and an opaque sender context;
// Seal is an uninterpreted function of (aad, plaintext) with a 16-byte tag.
func init() {
	hp := utlsPath + "/internal/hpke"
	externals[hp+".SetupSender"] = func(fr *frame, a []value) value {
		enc := make([]value, 32)
		for i := range enc {
			enc[i] = fr.ctx().NewInput("hpkeenc", types.Uint8)
		}
		p := fr.i.prog.ImportedPackage(hp)
		cell := zero(p.Type("Sender").Type())
		return tuple{enc, &cell, iface{}}
	}
	externals["(*"+hp+".Sender).Seal"] = func(fr *frame, a []value) value {
		aad, _ := a[1].([]value)
		pt, _ := a[2].([]value)
		n := len(pt) + 16
		out := make([]value, n)
		for i := range out {
			out[i] = fr.ctx().NewInput("hpkect", types.Uint8)
		}
		_ = aad
		return tuple{out, iface{}}
	}
}
