package interp

// Symbolic scalars on top of the concrete interpreter.
//
// A sym is a scalar whose value is an SMT term. Aggregates stay concrete
// containers whose leaves may be syms. A symstr is a string of concrete
// length whose bytes may be syms.

import (
	"fmt"
	"go/token"
	"go/types"
	"math"
	"unsafe"

	"symgo/smt"
)

type sym struct {
	k types.BasicKind
	t *smt.Term
}

// symstr is a string with (possibly) symbolic bytes. Immutable.
type symstr []value

func isSym(v value) bool {
	_, ok := v.(sym)
	return ok
}

func kindWidth(k types.BasicKind) int {
	switch k {
	case types.Bool:
		return 1
	case types.Int8, types.Uint8:
		return 8
	case types.Int16, types.Uint16:
		return 16
	case types.Int32, types.Uint32:
		return 32
	case types.Int, types.Int64, types.Uint, types.Uint64, types.Uintptr:
		return 64
	case types.Float64:
		return 64
	}
	panic(engineAbort{"unsupported", fmt.Sprintf("kindWidth(%v)", k)})
}

func kindSigned(k types.BasicKind) bool {
	switch k {
	case types.Int, types.Int8, types.Int16, types.Int32, types.Int64:
		return true
	}
	return false
}

func kindIsInt(k types.BasicKind) bool {
	switch k {
	case types.Int, types.Int8, types.Int16, types.Int32, types.Int64,
		types.Uint, types.Uint8, types.Uint16, types.Uint32, types.Uint64, types.Uintptr:
		return true
	}
	return false
}

// kindOf returns the basic kind of a scalar value.
func kindOf(v value) (types.BasicKind, bool) {
	switch v := v.(type) {
	case sym:
		return v.k, true
	case bool:
		return types.Bool, true
	case int:
		return types.Int, true
	case int8:
		return types.Int8, true
	case int16:
		return types.Int16, true
	case int32:
		return types.Int32, true
	case int64:
		return types.Int64, true
	case uint:
		return types.Uint, true
	case uint8:
		return types.Uint8, true
	case uint16:
		return types.Uint16, true
	case uint32:
		return types.Uint32, true
	case uint64:
		return types.Uint64, true
	case uintptr:
		return types.Uintptr, true
	case float64:
		return types.Float64, true
	}
	return 0, false
}

func sortOfKind(k types.BasicKind) smt.Sort {
	switch k {
	case types.Bool:
		return smt.BoolSort
	case types.Float64:
		return smt.F64Sort
	}
	return smt.BV(kindWidth(k))
}

// termOf lifts a scalar (concrete or symbolic) to a term.
func termOf(v value) *smt.Term {
	switch v := v.(type) {
	case sym:
		return v.t
	case bool:
		return smt.Bool(v)
	case int:
		return smt.Const(64, uint64(v))
	case int8:
		return smt.Const(8, uint64(v))
	case int16:
		return smt.Const(16, uint64(v))
	case int32:
		return smt.Const(32, uint64(v))
	case int64:
		return smt.Const(64, uint64(v))
	case uint:
		return smt.Const(64, uint64(v))
	case uint8:
		return smt.Const(8, uint64(v))
	case uint16:
		return smt.Const(16, uint64(v))
	case uint32:
		return smt.Const(32, uint64(v))
	case uint64:
		return smt.Const(64, v)
	case uintptr:
		return smt.Const(64, uint64(v))
	case float64:
		return smt.F64Const(v)
	}
	panic(engineAbort{"unsupported", fmt.Sprintf("termOf(%T)", v)})
}

// concreteOf builds the Go scalar of kind k from raw bits.
func concreteOf(k types.BasicKind, bits uint64) value {
	switch k {
	case types.Bool:
		return bits != 0
	case types.Int:
		return int(bits)
	case types.Int8:
		return int8(bits)
	case types.Int16:
		return int16(bits)
	case types.Int32:
		return int32(bits)
	case types.Int64:
		return int64(bits)
	case types.Uint:
		return uint(bits)
	case types.Uint8:
		return uint8(bits)
	case types.Uint16:
		return uint16(bits)
	case types.Uint32:
		return uint32(bits)
	case types.Uint64:
		return bits
	case types.Uintptr:
		return uintptr(bits)
	case types.Float64:
		return math.Float64frombits(bits)
	}
	panic(engineAbort{"unsupported", fmt.Sprintf("concreteOf(%v)", k)})
}

// mkVal wraps a term as a value, collapsing constants to concrete scalars.
func mkVal(k types.BasicKind, t *smt.Term) value {
	if t.IsConst() {
		return concreteOf(k, t.Val)
	}
	return sym{k, t}
}

func basicKindOfType(t types.Type) (types.BasicKind, bool) {
	b, ok := t.Underlying().(*types.Basic)
	if !ok {
		return 0, false
	}
	k := b.Kind()
	switch k {
	case types.UntypedBool:
		k = types.Bool
	case types.UntypedInt:
		k = types.Int
	case types.UntypedRune:
		k = types.Int32
	case types.UntypedFloat:
		k = types.Float64
	}
	return k, true
}

// engineAbort ends the current path for a reason that is not a behaviour of
// the target program.
type engineAbort struct {
	kind string // "unsupported", "unwind", "cap", "pruned", "stop"
	msg  string
}

func (e engineAbort) String() string { return e.kind + ": " + e.msg }

func unsupported(format string, a ...interface{}) engineAbort {
	return engineAbort{"unsupported", fmt.Sprintf(format, a...)}
}

// ---------------------------------------------------------------- binop

func symBinop(fr *frame, op token.Token, x, y value) value {
	// strings
	if isStringVal(x) || isStringVal(y) {
		return symStrBinop(op, x, y)
	}
	kx, okx := kindOf(x)
	ky, oky := kindOf(y)
	if !okx || !oky {
		panic(unsupported("symBinop %s on %T, %T", op, x, y))
	}
	tx, ty := termOf(x), termOf(y)

	switch op {
	case token.SHL, token.SHR:
		w := kindWidth(kx)
		wy := kindWidth(ky)
		if kindSigned(ky) {
			neg := smt.Cmp(smt.OSlt, ty, smt.Const(wy, 0))
			if fr.ctx().Branch(neg, "shift-negative") {
				panic(runtimeError("negative shift amount"))
			}
		}
		var cnt *smt.Term
		if wy <= w {
			cnt = smt.Zext(ty, w)
		} else {
			big := smt.Not(smt.Cmp(smt.OUlt, ty, smt.Const(wy, uint64(w))))
			cnt = smt.Ite(big, smt.Const(w, uint64(w)), smt.Extract(ty, w-1, 0))
		}
		var r *smt.Term
		switch {
		case op == token.SHL:
			r = smt.Bin(smt.OShl, tx, cnt)
		case kindSigned(kx):
			r = smt.Bin(smt.OAShr, tx, cnt)
		default:
			r = smt.Bin(smt.OLShr, tx, cnt)
		}
		return mkVal(kx, r)
	}

	if kx != ky {
		panic(unsupported("symBinop %s kind mismatch %v %v", op, kx, ky))
	}
	k := kx
	if k == types.Bool {
		switch op {
		case token.EQL:
			return mkVal(types.Bool, smt.Eq(tx, ty))
		case token.NEQ:
			return mkVal(types.Bool, smt.Not(smt.Eq(tx, ty)))
		case token.AND, token.LAND:
			return mkVal(types.Bool, smt.And(tx, ty))
		case token.OR, token.LOR:
			return mkVal(types.Bool, smt.Or(tx, ty))
		}
		panic(unsupported("symBinop bool %s", op))
	}
	if k == types.Float64 {
		switch op {
		case token.ADD:
			return mkVal(k, smt.FBin(smt.OFAdd, tx, ty))
		case token.SUB:
			return mkVal(k, smt.FBin(smt.OFSub, tx, ty))
		case token.MUL:
			return mkVal(k, smt.FBin(smt.OFMul, tx, ty))
		case token.QUO:
			return mkVal(k, smt.FBin(smt.OFDiv, tx, ty))
		case token.LSS:
			return mkVal(types.Bool, smt.FCmp(smt.OFLt, tx, ty))
		case token.LEQ:
			return mkVal(types.Bool, smt.FCmp(smt.OFLe, tx, ty))
		case token.GTR:
			return mkVal(types.Bool, smt.FCmp(smt.OFLt, ty, tx))
		case token.GEQ:
			return mkVal(types.Bool, smt.FCmp(smt.OFLe, ty, tx))
		case token.EQL:
			return mkVal(types.Bool, smt.FCmp(smt.OFEq, tx, ty))
		case token.NEQ:
			return mkVal(types.Bool, smt.Not(smt.FCmp(smt.OFEq, tx, ty)))
		}
		panic(unsupported("symBinop float %s", op))
	}
	if !kindIsInt(k) {
		panic(unsupported("symBinop kind %v", k))
	}
	sg := kindSigned(k)
	w := kindWidth(k)
	switch op {
	case token.ADD:
		return mkVal(k, smt.Bin(smt.OAdd, tx, ty))
	case token.SUB:
		return mkVal(k, smt.Bin(smt.OSub, tx, ty))
	case token.MUL:
		return mkVal(k, smt.Bin(smt.OMul, tx, ty))
	case token.QUO, token.REM:
		if isSym(y) {
			if fr.ctx().Branch(smt.Eq(ty, smt.Const(w, 0)), "div-zero") {
				panic(runtimeError("integer divide by zero"))
			}
		} else if ty.Val == 0 {
			panic(runtimeError("integer divide by zero"))
		}
		var o smt.Op
		switch {
		case op == token.QUO && sg:
			o = smt.OSDiv
		case op == token.QUO:
			o = smt.OUDiv
		case sg:
			o = smt.OSRem
		default:
			o = smt.OURem
		}
		return mkVal(k, smt.Bin(o, tx, ty))
	case token.AND:
		return mkVal(k, smt.Bin(smt.OBAnd, tx, ty))
	case token.OR:
		return mkVal(k, smt.Bin(smt.OBOr, tx, ty))
	case token.XOR:
		return mkVal(k, smt.Bin(smt.OBXor, tx, ty))
	case token.AND_NOT:
		return mkVal(k, smt.Bin(smt.OBAnd, tx, smt.BNot(ty)))
	case token.EQL:
		return mkVal(types.Bool, smt.Eq(tx, ty))
	case token.NEQ:
		return mkVal(types.Bool, smt.Not(smt.Eq(tx, ty)))
	case token.LSS:
		if sg {
			return mkVal(types.Bool, smt.Cmp(smt.OSlt, tx, ty))
		}
		return mkVal(types.Bool, smt.Cmp(smt.OUlt, tx, ty))
	case token.LEQ:
		if sg {
			return mkVal(types.Bool, smt.Cmp(smt.OSle, tx, ty))
		}
		return mkVal(types.Bool, smt.Cmp(smt.OUle, tx, ty))
	case token.GTR:
		if sg {
			return mkVal(types.Bool, smt.Cmp(smt.OSlt, ty, tx))
		}
		return mkVal(types.Bool, smt.Cmp(smt.OUlt, ty, tx))
	case token.GEQ:
		if sg {
			return mkVal(types.Bool, smt.Cmp(smt.OSle, ty, tx))
		}
		return mkVal(types.Bool, smt.Cmp(smt.OUle, ty, tx))
	}
	panic(unsupported("symBinop int %s", op))
}

// runtimeError mimics the runtime's error values for implicit panics raised
// explicitly by the engine.
type rtError string

func (e rtError) Error() string { return "runtime error: " + string(e) }
func (e rtError) RuntimeError() {}

func runtimeError(msg string) rtError { return rtError(msg) }

func symUnop(op token.Token, x sym) value {
	switch op {
	case token.SUB:
		if x.k == types.Float64 {
			return mkVal(x.k, smt.FNeg(x.t))
		}
		return mkVal(x.k, smt.Neg(x.t))
	case token.XOR:
		return mkVal(x.k, smt.BNot(x.t))
	case token.NOT:
		return mkVal(types.Bool, smt.Not(x.t))
	}
	panic(unsupported("symUnop %s", op))
}

// symConvNumeric converts symbolic scalar x to basic kind dst.
func symConvNumeric(x sym, dst types.BasicKind) value {
	src := x.k
	if src == dst {
		return x
	}
	if kindIsInt(src) && kindIsInt(dst) {
		ws, wd := kindWidth(src), kindWidth(dst)
		var t *smt.Term
		switch {
		case wd == ws:
			t = x.t
		case wd < ws:
			t = smt.Extract(x.t, wd-1, 0)
		case kindSigned(src):
			t = smt.Sext(x.t, wd)
		default:
			t = smt.Zext(x.t, wd)
		}
		return mkVal(dst, t)
	}
	if kindIsInt(src) && dst == types.Float64 {
		return mkVal(dst, smt.IntToF(x.t, kindSigned(src)))
	}
	if src == types.Float64 && kindIsInt(dst) {
		// Go's float->int conversion of out-of-range values is
		// implementation-defined; SMT leaves it unspecified: sound.
		return mkVal(dst, smt.FToInt(x.t, kindWidth(dst), kindSigned(dst)))
	}
	panic(unsupported("symbolic conversion %v -> %v", src, dst))
}

// ---------------------------------------------------------------- strings

func isStringVal(v value) bool {
	switch v.(type) {
	case string, symstr:
		return true
	}
	return false
}

func strBytes(v value) []value {
	switch v := v.(type) {
	case string:
		r := make([]value, len(v))
		for i := 0; i < len(v); i++ {
			r[i] = v[i]
		}
		return r
	case symstr:
		return []value(v)
	}
	panic(unsupported("strBytes(%T)", v))
}

func strLen(v value) int {
	switch v := v.(type) {
	case string:
		return len(v)
	case symstr:
		return len(v)
	}
	panic(unsupported("strLen(%T)", v))
}

// mkStr builds a string value from bytes, collapsing to a Go string when all
// bytes are concrete.
func mkStr(b []value) value {
	for _, x := range b {
		if isSym(x) {
			cp := make(symstr, len(b))
			copy(cp, b)
			return cp
		}
	}
	bs := make([]byte, len(b))
	for i, x := range b {
		bs[i] = x.(uint8)
	}
	return string(bs)
}

func strEqTerm(x, y value) *smt.Term {
	if strLen(x) != strLen(y) {
		return smt.False
	}
	bx, by := strBytes(x), strBytes(y)
	r := smt.True
	for i := range bx {
		r = smt.And(r, smt.Eq(termOf(bx[i]), termOf(by[i])))
		if r.IsFalse() {
			return r
		}
	}
	return r
}

// strLtTerm is lexicographic x < y.
func strLtTerm(x, y value) *smt.Term {
	bx, by := strBytes(x), strBytes(y)
	n := len(bx)
	if len(by) < n {
		n = len(by)
	}
	// result if all common bytes equal
	res := smt.Bool(len(bx) < len(by))
	for i := n - 1; i >= 0; i-- {
		a, b := termOf(bx[i]), termOf(by[i])
		res = smt.Ite(smt.Cmp(smt.OUlt, a, b), smt.True, smt.Ite(smt.Cmp(smt.OUlt, b, a), smt.False, res))
	}
	return res
}

func symStrBinop(op token.Token, x, y value) value {
	switch op {
	case token.ADD:
		return mkStr(append(append([]value{}, strBytes(x)...), strBytes(y)...))
	case token.EQL:
		return mkVal(types.Bool, strEqTerm(x, y))
	case token.NEQ:
		return mkVal(types.Bool, smt.Not(strEqTerm(x, y)))
	case token.LSS:
		return mkVal(types.Bool, strLtTerm(x, y))
	case token.GTR:
		return mkVal(types.Bool, strLtTerm(y, x))
	case token.LEQ:
		return mkVal(types.Bool, smt.Not(strLtTerm(y, x)))
	case token.GEQ:
		return mkVal(types.Bool, smt.Not(strLtTerm(x, y)))
	}
	panic(unsupported("string op %s", op))
}

// ---------------------------------------------------------------- equality

// eqTerm returns the term for x == y at static type t (Go's == relation).
func eqTerm(t types.Type, x, y value) *smt.Term {
	switch x := x.(type) {
	case sym:
		return termOf(symBinopNoFr(token.EQL, x, y))
	case symstr:
		return strEqTerm(x, y)
	case string:
		if ys, ok := y.(symstr); ok {
			return strEqTerm(x, ys)
		}
		return smt.Bool(x == y.(string))
	case structure:
		y := y.(structure)
		tStruct := t.Underlying().(*types.Struct)
		r := smt.True
		for i, n := 0, tStruct.NumFields(); i < n; i++ {
			f := tStruct.Field(i)
			if f.Name() == "_" {
				continue
			}
			r = smt.And(r, eqTerm(f.Type(), x[i], y[i]))
			if r.IsFalse() {
				return r
			}
		}
		return r
	case array:
		y := y.(array)
		tElt := t.Underlying().(*types.Array).Elem()
		r := smt.True
		for i := range x {
			r = smt.And(r, eqTerm(tElt, x[i], y[i]))
			if r.IsFalse() {
				return r
			}
		}
		return r
	case iface:
		y := y.(iface)
		if !sameType(x.t, y.t) {
			return smt.False
		}
		if x.t == nil {
			return smt.True
		}
		return eqTerm(x.t, x.v, y.v)
	case rtype:
		return smt.Bool(x.eq(t, y))
	case *value:
		return smt.Bool(x == y.(*value))
	case chan value:
		return smt.Bool(x == y.(chan value))
	case unsafe.Pointer:
		return smt.Bool(x == y.(unsafe.Pointer))
	}
	if isSym(y) {
		return termOf(symBinopNoFr(token.EQL, x, y))
	}
	if _, ok := kindOf(x); ok {
		if _, ok := y.(complex128); !ok {
			// concrete scalars of identical dynamic type
			return smt.Bool(x == y)
		}
	}
	switch x.(type) {
	case float32, complex64, complex128:
		return smt.Bool(x == y)
	}
	panic(targetPanic{iface{t: types.Typ[types.String], v: fmt.Sprintf("runtime error: comparing uncomparable type %s", t)}})
}

// symBinopNoFr is symBinop for operators that never fork.
func symBinopNoFr(op token.Token, x, y value) value {
	return symBinop(nil, op, x, y)
}
