package interp

import (
	"fmt"
	"go/types"
	"strings"
	"unsafe"

	"golang.org/x/tools/go/ssa"

	"symgo/smt"
)

func init() {
	externals[utlsPath+".verifFill"] = extVerifFill
	externals[utlsPath+".verifDeepEq"] = extVerifDeepEq
}

// verifFill(name string, p any, n int): see harness/support_reflect.go.
func extVerifFill(fr *frame, a []value) value {
	name := strArg(a[0])
	it := a[1].(iface)
	n := int(asInt64(a[2]))
	pt, ok := it.t.Underlying().(*types.Pointer)
	ptr, ok2 := it.v.(*value)
	if !ok || !ok2 || ptr == nil {
		panic(targetPanic{iface{types.Typ[types.String], "verifFill: need a non-nil pointer"}})
	}
	*ptr = fillValue(fr, name, pt.Elem(), *ptr, n)
	return nil
}

func fillValue(fr *frame, path string, t types.Type, cur value, n int) value {
	switch u := t.Underlying().(type) {
	case *types.Basic:
		switch {
		case u.Kind() == types.String:
			b := make([]value, n)
			for i := range b {
				b[i] = fr.ctx().NewInput(fmt.Sprintf("%s[%d]", path, i), types.Uint8)
			}
			return mkStr(b)
		case u.Kind() == types.Bool:
			return fr.ctx().NewInput(path, types.Bool)
		case u.Info()&types.IsInteger != 0:
			return fr.ctx().NewInput(path, u.Kind())
		}
		return cur
	case *types.Slice:
		if n == 0 {
			return cur
		}
		s := make([]value, n)
		for i := range s {
			s[i] = fillValue(fr, fmt.Sprintf("%s[%d]", path, i), u.Elem(), zero(u.Elem()), n)
		}
		return s
	case *types.Array:
		arr := cur.(array)
		for i := range arr {
			arr[i] = fillValue(fr, fmt.Sprintf("%s[%d]", path, i), u.Elem(), arr[i], n)
		}
		return arr
	case *types.Struct:
		st := cur.(structure)
		for i := 0; i < u.NumFields(); i++ {
			st[i] = fillValue(fr, path+"."+u.Field(i).Name(), u.Field(i).Type(), st[i], n)
		}
		return st
	}
	return cur
}

func extVerifDeepEq(fr *frame, a []value) value {
	x, y := a[0].(iface), a[1].(iface)
	skip := "," + strArg(a[2]) + ","
	if !sameType(x.t, y.t) {
		return false
	}
	if x.t == nil {
		return true
	}
	return mkVal(types.Bool, deepEq(x.t, x.v, y.v, skip, 0))
}

func isNilRef(v value) bool {
	switch v := v.(type) {
	case *value:
		return v == nil
	case []value:
		return v == nil
	case map[value]value:
		return v == nil
	case *hashmap:
		return v == nil
	case chan value:
		return v == nil
	case *closure:
		return v == nil
	case unsafe.Pointer:
		return v == nil
	case iface:
		return v.t == nil
	}
	if f, ok := v.(interface{ String() string }); ok {
		_ = f
	}
	return false
}

func deepEq(t types.Type, x, y value, skip string, depth int) *smt.Term {
	if depth > 20 {
		return smt.True
	}
	switch u := t.Underlying().(type) {
	case *types.Basic:
		if u.Kind() == types.UnsafePointer {
			return smt.Bool(isNilRef(x) == isNilRef(y))
		}
		return eqTerm(t, x, y)
	case *types.Slice:
		xs, _ := x.([]value)
		ys, _ := y.([]value)
		if len(xs) != len(ys) {
			return smt.False
		}
		r := smt.True
		for i := range xs {
			r = smt.And(r, deepEq(u.Elem(), xs[i], ys[i], skip, depth+1))
		}
		return r
	case *types.Array:
		xs, ys := x.(array), y.(array)
		r := smt.True
		for i := range xs {
			r = smt.And(r, deepEq(u.Elem(), xs[i], ys[i], skip, depth+1))
		}
		return r
	case *types.Struct:
		xs, ys := x.(structure), y.(structure)
		r := smt.True
		for i := 0; i < u.NumFields(); i++ {
			if strings.Contains(skip, ","+u.Field(i).Name()+",") {
				continue
			}
			r = smt.And(r, deepEq(u.Field(i).Type(), xs[i], ys[i], skip, depth+1))
		}
		return r
	case *types.Pointer:
		xp, yp := x.(*value), y.(*value)
		if xp == nil || yp == nil {
			return smt.Bool(xp == yp)
		}
		return deepEq(u.Elem(), *xp, *yp, skip, depth+1)
	case *types.Interface:
		xi, yi := x.(iface), y.(iface)
		if xi.t == nil || yi.t == nil {
			return smt.Bool(xi.t == nil && yi.t == nil)
		}
		if !sameType(xi.t, yi.t) {
			return smt.False
		}
		return deepEq(xi.t, xi.v, yi.v, skip, depth+1)
	case *types.Signature:
		return smt.Bool(isNilFunc(x) == isNilFunc(y))
	case *types.Map, *types.Chan:
		return smt.Bool(isNilRef(x) == isNilRef(y))
	}
	return smt.True
}

func isNilFunc(v value) bool {
	switch f := v.(type) {
	case *closure:
		return f == nil
	case *ssa.Function:
		return f == nil
	case *ssa.Builtin:
		return f == nil
	case nil:
		return true
	}
	return false
}

func typesNewPointer(t types.Type) types.Type { return types.NewPointer(t) }

const kindU8 = types.Uint8
