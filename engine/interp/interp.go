// Derived from golang.org/x/tools/go/ssa/interp (BSD-style licence, The Go Authors);
// extended with symbolic scalars, forking and stubs for symgo.

package interp

import (
	"fmt"
	"strings"
	"go/token"
	"go/types"
	"log"
	"os"
	"runtime"
	"slices"
	_ "unsafe"

	"golang.org/x/tools/go/ssa"

)

func mustDeref(t types.Type) types.Type {
	if p, ok := t.Underlying().(*types.Pointer); ok {
		return p.Elem()
	}
	panic(fmt.Sprintf("mustDeref: %v is not a pointer", t))
}

type continuation int

const (
	kNext continuation = iota
	kReturn
	kJump
)

// Mode is a bitmask of options affecting the interpreter.
type Mode uint

const (
	DisableRecover Mode = 1 << iota // Disable recover() in target programs; show interpreter crash instead.
	EnableTracing                   // Print a trace of all instructions as they are interpreted.
)

type methodSet map[string]*ssa.Function

// State shared between all interpreted goroutines.
type interpreter struct {
	osArgs             []value                // the value of os.Args
	prog               *ssa.Program           // the SSA program
	globals            map[*ssa.Global]*value // addresses of global variables (immutable)
	mode               Mode                   // interpreter options
	reflectPackage     *ssa.Package           // the fake reflect package
	errorMethods       methodSet              // the method set of reflect.error, which implements the error interface.
	rtypeMethods       methodSet              // the method set of rtype, which implements the reflect.Type interface.
	runtimeErrorString types.Type             // the runtime.errorString type
	sizes              types.Sizes            // the effective type-sizing function
	goroutines         int32                  // atomically updated
	c                  *Ctx                   // symbolic path context
	m                  *Machine
	stubs              map[string]*ssa.Function
	inInit             bool
	instrs             int64
	depth              int
	mutexHeld          map[*value]int
	opaque             map[*value][]value
	kdfMemo            map[string][]value
	panicTrace         string
	boxSeq             int
}

type deferred struct {
	fn    value
	args  []value
	instr *ssa.Defer
	tail  *deferred
}

type frame struct {
	i                *interpreter
	caller           *frame
	fn               *ssa.Function
	block, prevBlock *ssa.BasicBlock
	env              map[ssa.Value]value // dynamic values of SSA variables
	locals           []value
	defers           *deferred
	result           value
	panicking        bool
	panic            interface{}
	phitemps         []value // temporaries for parallel phi assignment
	curInstr         ssa.Instruction
}

func (fr *frame) ctx() *Ctx { return fr.i.c }

func (fr *frame) get(key ssa.Value) value {
	switch key := key.(type) {
	case nil:
		// Hack; simplifies handling of optional attributes
		// such as ssa.Slice.{Low,High}.
		return nil
	case *ssa.Function, *ssa.Builtin:
		return key
	case *ssa.Const:
		return constValue(key)
	case *ssa.Global:
		if r, ok := fr.i.globals[key]; ok {
			return r
		}
	}
	if r, ok := fr.env[key]; ok {
		return r
	}
	panic(fmt.Sprintf("get: no value for %T: %v", key, key.Name()))
}

// runDefer runs a deferred call d.
// It always returns normally, but may set or clear fr.panic.
func (fr *frame) runDefer(d *deferred) {
	if fr.i.mode&EnableTracing != 0 {
		fmt.Fprintf(os.Stderr, "%s: invoking deferred function call\n",
			fr.i.prog.Fset.Position(d.instr.Pos()))
	}
	var ok bool
	defer func() {
		if !ok {
			// Deferred call created a new state of panic.
			fr.panicking = true
			fr.panic = recover()
			if ea, isAbort := fr.panic.(engineAbort); isAbort {
				panic(ea)
			}
		}
	}()
	call(fr.i, fr, d.instr.Pos(), d.fn, d.args)
	ok = true
}

// runDefers executes fr's deferred function calls in LIFO order.
//
// On entry, fr.panicking indicates a state of panic; if
// true, fr.panic contains the panic value.
//
// On completion, if a deferred call started a panic, or if no
// deferred call recovered from a previous state of panic, then
// runDefers itself panics after the last deferred call has run.
//
// If there was no initial state of panic, or it was recovered from,
// runDefers returns normally.
func (fr *frame) runDefers() {
	for d := fr.defers; d != nil; d = d.tail {
		fr.runDefer(d)
	}
	fr.defers = nil
	if fr.panicking {
		panic(fr.panic) // new panic, or still panicking
	}
}

// lookupMethod returns the method set for type typ, which may be one
// of the interpreter's fake types.
func lookupMethod(i *interpreter, typ types.Type, meth *types.Func) *ssa.Function {
	return i.prog.LookupMethod(typ, meth.Pkg(), meth.Name())
}

// visitInstr interprets a single ssa.Instruction within the activation
// record frame.  It returns a continuation value indicating where to
// read the next instruction from.
func visitInstr(fr *frame, instr ssa.Instruction) continuation {
	switch instr := instr.(type) {
	case *ssa.DebugRef:
		// no-op

	case *ssa.UnOp:
		fr.env[instr] = unop(fr, instr, fr.get(instr.X))

	case *ssa.BinOp:
		fr.env[instr] = binop(fr, instr.Op, instr.X.Type(), fr.get(instr.X), fr.get(instr.Y))

	case *ssa.Call:
		if fr.fn.Synthetic == "package initializer" {
			fr.env[instr] = tolerantCall(fr, instr)
		} else {
			fn, args := prepareCall(fr, &instr.Call)
			fr.env[instr] = call(fr.i, fr, instr.Pos(), fn, args)
		}

	case *ssa.ChangeInterface:
		fr.env[instr] = fr.get(instr.X)

	case *ssa.ChangeType:
		fr.env[instr] = fr.get(instr.X) // (can't fail)

	case *ssa.Convert:
		fr.env[instr] = conv(fr, instr.Type(), instr.X.Type(), fr.get(instr.X))

	case *ssa.MultiConvert:
		fr.env[instr] = conv(fr, instr.Type(), instr.X.Type(), fr.get(instr.X))

	case *ssa.SliceToArrayPointer:
		fr.env[instr] = sliceToArrayPointer(instr.Type(), instr.X.Type(), fr.get(instr.X))

	case *ssa.MakeInterface:
		fr.env[instr] = iface{t: instr.X.Type(), v: fr.get(instr.X)}

	case *ssa.Extract:
		fr.env[instr] = fr.get(instr.Tuple).(tuple)[instr.Index]

	case *ssa.Slice:
		fr.env[instr] = slice(fr, fr.get(instr.X), fr.get(instr.Low), fr.get(instr.High), fr.get(instr.Max))

	case *ssa.Return:
		switch len(instr.Results) {
		case 0:
		case 1:
			fr.result = fr.get(instr.Results[0])
		default:
			var res []value
			for _, r := range instr.Results {
				res = append(res, fr.get(r))
			}
			fr.result = tuple(res)
		}
		fr.block = nil
		return kReturn

	case *ssa.RunDefers:
		fr.runDefers()

	case *ssa.Panic:
		panic(targetPanic{fr.get(instr.X)})

	case *ssa.Send:
		ch := fr.get(instr.Chan).(chan value)
		select {
		case ch <- fr.get(instr.X):
		default:
			panic(unsupported("channel send would block (single goroutine)"))
		}

	case *ssa.Store:
		store(mustDeref(instr.Addr.Type()), fr.get(instr.Addr).(*value), fr.get(instr.Val))

	case *ssa.If:
		succ := 1
		cv := fr.get(instr.Cond)
		var taken bool
		if sc, ok := cv.(sym); ok {
			fr.ctx().loopTick(fr, instr)
			taken = fr.ctx().Branch(sc.t, "if")
		} else {
			taken = cv.(bool)
		}
		if taken {
			succ = 0
		}
		fr.prevBlock, fr.block = fr.block, fr.block.Succs[succ]
		return kJump

	case *ssa.Jump:
		fr.prevBlock, fr.block = fr.block, fr.block.Succs[0]
		return kJump

	case *ssa.Defer:
		fn, args := prepareCall(fr, &instr.Call)
		defers := &fr.defers
		if into := fr.get(instr.DeferStack); into != nil {
			defers = into.(**deferred)
		}
		*defers = &deferred{
			fn:    fn,
			args:  args,
			instr: instr,
			tail:  *defers,
		}

	case *ssa.Go:
		panic(unsupported("go statement at %s", fr.i.prog.Fset.Position(instr.Pos())))

	case *ssa.MakeChan:
		fr.env[instr] = make(chan value, fr.concInt(fr.get(instr.Size), "makechan"))

	case *ssa.Alloc:
		var addr *value
		if instr.Heap {
			// new
			addr = new(value)
			fr.env[instr] = addr
		} else {
			// local
			addr = fr.env[instr].(*value)
		}
		*addr = zero(mustDeref(instr.Type()))

	case *ssa.MakeSlice:
		fr.env[instr] = makeSlice(fr, instr)

	case *ssa.MakeMap:
		var reserve int64
		if instr.Reserve != nil {
			if rv := fr.get(instr.Reserve); !isSym(rv) {
				reserve = asInt64(rv)
			}
		}
		if reserve < 0 || reserve > 1<<16 {
			reserve = 0
		}
		fr.env[instr] = makeMap(instr.Type().Underlying().(*types.Map).Key(), reserve)

	case *ssa.Range:
		fr.env[instr] = rangeIter(fr.get(instr.X), instr.X.Type())

	case *ssa.Next:
		fr.env[instr] = fr.get(instr.Iter).(iter).next()
		fr.i.instrs += 4

	case *ssa.FieldAddr:
		fr.env[instr] = &(*fr.get(instr.X).(*value)).(structure)[instr.Field]

	case *ssa.Field:
		fr.env[instr] = fr.get(instr.X).(structure)[instr.Field]

	case *ssa.IndexAddr:
		x := fr.get(instr.X)
		idx := fr.get(instr.Index)
		switch x := x.(type) {
		case []value:
			fr.env[instr] = &x[fr.concIndex(idx, len(x))]
		case *value: // *array
			a := (*x).(array)
			fr.env[instr] = &a[fr.concIndex(idx, len(a))]
		default:
			panic(fmt.Sprintf("unexpected x type in IndexAddr: %T", x))
		}

	case *ssa.Index:
		x := fr.get(instr.X)
		idx := fr.get(instr.Index)

		switch x := x.(type) {
		case array:
			fr.env[instr] = symIndex(fr, []value(x), idx)
		case string:
			if isSym(idx) {
				fr.env[instr] = symIndex(fr, strBytes(x), idx)
			} else {
				fr.env[instr] = x[asInt64(idx)]
			}
		case symstr:
			fr.env[instr] = symIndex(fr, []value(x), idx)
		default:
			panic(fmt.Sprintf("unexpected x type in Index: %T", x))
		}

	case *ssa.Lookup:
		fr.env[instr] = lookup(fr, instr, fr.get(instr.X), fr.get(instr.Index))

	case *ssa.MapUpdate:
		m := fr.get(instr.Map)
		key := fr.mapUpdateKey(m, fr.get(instr.Key))
		v := fr.get(instr.Value)
		switch m := m.(type) {
		case map[value]value:
			if m == nil {
				panic(targetPanic{iface{types.Typ[types.String], "assignment to entry in nil map"}})
			}
			m[key] = v
		case *hashmap:
			if m == nil {
				panic(targetPanic{iface{types.Typ[types.String], "assignment to entry in nil map"}})
			}
			m.insert(key.(hashable), v)
		default:
			panic(fmt.Sprintf("illegal map type: %T", m))
		}

	case *ssa.TypeAssert:
		fr.env[instr] = typeAssert(fr.i, instr, fr.get(instr.X).(iface))

	case *ssa.MakeClosure:
		var bindings []value
		for _, binding := range instr.Bindings {
			bindings = append(bindings, fr.get(binding))
		}
		fr.env[instr] = &closure{instr.Fn.(*ssa.Function), bindings}

	case *ssa.Phi:
		log.Fatal("unreachable") // phis are processed at block entry

	case *ssa.Select:
		fr.env[instr] = doSelect(fr, instr)

	default:
		panic(fmt.Sprintf("unexpected instruction: %T", instr))
	}

	// if val, ok := instr.(ssa.Value); ok {
	// 	fmt.Println(toString(fr.env[val])) // debugging
	// }

	return kNext
}

// prepareCall determines the function value and argument values for a
// function call in a Call, Go or Defer instruction, performing
// interface method lookup if needed.
func prepareCall(fr *frame, call *ssa.CallCommon) (fn value, args []value) {
	v := fr.get(call.Value)
	if call.Method == nil {
		// Function call.
		fn = v
	} else {
		// Interface method invocation.
		recv := v.(iface)
		if recv.t == nil {
			panic(runtimeError("invalid memory address or nil pointer dereference"))
		}
		if f := lookupMethod(fr.i, recv.t, call.Method); f == nil {
			// Unreachable in well-typed programs.
			panic(fmt.Sprintf("method set for dynamic type %v does not contain %s", recv.t, call.Method))
		} else {
			fn = f
		}
		args = append(args, recv.v)
	}
	for _, arg := range call.Args {
		args = append(args, fr.get(arg))
	}
	return
}

// call interprets a call to a function (function, builtin or closure)
// fn with arguments args, returning its result.
// callpos is the position of the callsite.
func call(i *interpreter, caller *frame, callpos token.Pos, fn value, args []value) value {
	switch fn := fn.(type) {
	case *ssa.Function:
		if fn == nil {
			panic(runtimeError("invalid memory address or nil pointer dereference")) // nil of func type
		}
		return callSSA(i, caller, callpos, fn, args, nil)
	case *closure:
		return callSSA(i, caller, callpos, fn.Fn, args, fn.Env)
	case *ssa.Builtin:
		return callBuiltin(caller, callpos, fn, args)
	}
	panic(fmt.Sprintf("cannot call %T", fn))
}

func loc(fset *token.FileSet, pos token.Pos) string {
	if pos == token.NoPos {
		return ""
	}
	return " at " + fset.Position(pos).String()
}

// callSSA interprets a call to function fn with arguments args,
// and lexical environment env, returning its result.
// callpos is the position of the callsite.
func callSSA(i *interpreter, caller *frame, callpos token.Pos, fn *ssa.Function, args []value, env []value) value {
	if i.mode&EnableTracing != 0 {
		fset := fn.Prog.Fset
		// TODO(adonovan): fix: loc() lies for external functions.
		fmt.Fprintf(os.Stderr, "Entering %s%s.\n", fn, loc(fset, fn.Pos()))
		suffix := ""
		if caller != nil {
			suffix = ", resuming " + caller.fn.String() + loc(fset, callpos)
		}
		defer fmt.Fprintf(os.Stderr, "Leaving %s%s.\n", fn, suffix)
	}
	fr := &frame{
		i:      i,
		caller: caller, // for panic/recover
		fn:     fn,
	}
	if fn.Parent() == nil {
		name := fn.String()
		if fn.Synthetic == "package initializer" {
			if fn.Pkg == nil || !i.m.InitAllowed(fn.Pkg.Pkg.Path()) {
				return nil
			}
		}
		if i.stubs != nil {
			if st := i.stubs[name]; st != nil && (caller == nil || caller.fn != st) {
				i.c.res.StubsHit[name]++
				return callSSA(i, caller, callpos, st, args, nil)
			}
		}
		if ext := lookupExternal(fn, name); ext != nil {
			if i.mode&EnableTracing != 0 {
				fmt.Fprintln(os.Stderr, "\t(external)")
			}
			i.c.res.StubsHit["intrinsic:"+name]++
			return ext(fr, args)
		}
		if fn.Blocks == nil {
			panic(unsupported("no code for function: %s", name))
		}
	}
	i.depth++
	if i.depth > 2000 {
		panic(engineAbort{"cap", "call depth exceeds 2000"})
	}
	defer func() { i.depth-- }()
	i.c.res.Funcs[fn.String()]++

	// generic function body?
	if fn.TypeParams().Len() > 0 && len(fn.TypeArgs()) == 0 {
		panic("interp requires ssa.BuilderMode to include InstantiateGenerics to execute generics")
	}

	fr.env = make(map[ssa.Value]value)
	fr.block = fn.Blocks[0]
	fr.locals = make([]value, len(fn.Locals))
	for i, l := range fn.Locals {
		fr.locals[i] = zero(mustDeref(l.Type()))
		fr.env[l] = &fr.locals[i]
	}
	for i, p := range fn.Params {
		fr.env[p] = args[i]
	}
	for i, fv := range fn.FreeVars {
		fr.env[fv] = env[i]
	}
	for fr.block != nil {
		runFrame(fr)
	}
	// Destroy the locals to avoid accidental use after return.
	for i := range fn.Locals {
		fr.locals[i] = bad{}
	}
	return fr.result
}

// runFrame executes SSA instructions starting at fr.block and
// continuing until a return, a panic, or a recovered panic.
//
// After a panic, runFrame panics.
//
// After a normal return, fr.result contains the result of the call
// and fr.block is nil.
//
// A recovered panic in a function without named return parameters
// (NRPs) becomes a normal return of the zero value of the function's
// result type.
//
// After a recovered panic in a function with NRPs, fr.result is
// undefined and fr.block contains the block at which to resume
// control.
func runFrame(fr *frame) {
	defer func() {
		if fr.block == nil {
			return // normal return
		}
		if fr.i.mode&DisableRecover != 0 {
			return // let interpreter crash
		}
		fr.panicking = true
		fr.panic = recover()
		if fr.i.mode&EnableTracing != 0 {
			fmt.Fprintf(os.Stderr, "Panicking: %T %v.\n", fr.panic, fr.panic)
		}
		if ea, isAbort := fr.panic.(engineAbort); isAbort {
			if fr.i.panicTrace == "" && ea.kind == "unsupported" {
				fr.i.panicTrace = targetStack(fr)
			}
			panic(ea)
		}
		if fr.i.panicTrace == "" {
			fr.i.panicTrace = targetStack(fr)
		}
		if re, isRT := fr.panic.(runtime.Error); isRT {
			if _, isTA := re.(*runtime.TypeAssertionError); isTA {
				panic(unsupported("engine type confusion in %s: %v", fr.fn, re))
			}
		}
		if sp, isStr := fr.panic.(string); isStr {
			panic(unsupported("interpreter: %s (in %s)", sp, fr.fn))
		}
		fr.runDefers()
		fr.block = fr.fn.Recover
	}()

	for {
		if fr.i.mode&EnableTracing != 0 {
			fmt.Fprintf(os.Stderr, ".%s:\n", fr.block)
		}

		nonPhis := executePhis(fr)
		for _, instr := range nonPhis {
			if fr.i.mode&EnableTracing != 0 {
				if v, ok := instr.(ssa.Value); ok {
					fmt.Fprintln(os.Stderr, "\t", v.Name(), "=", instr)
				} else {
					fmt.Fprintln(os.Stderr, "\t", instr)
				}
			}
			fr.i.instrs++
			if instr.Pos().IsValid() {
				fr.curInstr = instr
			}
			if fr.i.instrs > fr.i.c.InstrCap {
				panic(engineAbort{"cap", fmt.Sprintf("instruction cap %d exceeded", fr.i.c.InstrCap)})
			}
			if visitInstr(fr, instr) == kReturn {
				return
			}
			// Inv: kNext (continue) or kJump (last instr)
		}
	}
}

// executePhis executes the phi-nodes at the start of the current
// block and returns the non-phi instructions.
func executePhis(fr *frame) []ssa.Instruction {
	firstNonPhi := -1
	for i, instr := range fr.block.Instrs {
		if _, ok := instr.(*ssa.Phi); !ok {
			firstNonPhi = i
			break
		}
	}
	// Inv: 0 <= firstNonPhi; every block contains a non-phi.

	nonPhis := fr.block.Instrs[firstNonPhi:]
	if firstNonPhi > 0 {
		phis := fr.block.Instrs[:firstNonPhi]
		// Execute parallel assignment of phis.
		//
		// See "the swap problem" in Briggs et al's "Practical Improvements
		// to the Construction and Destruction of SSA Form" for discussion.
		predIndex := slices.Index(fr.block.Preds, fr.prevBlock)
		fr.phitemps = fr.phitemps[:0]
		for _, phi := range phis {
			phi := phi.(*ssa.Phi)
			if fr.i.mode&EnableTracing != 0 {
				fmt.Fprintln(os.Stderr, "\t", phi.Name(), "=", phi)
			}
			fr.phitemps = append(fr.phitemps, fr.get(phi.Edges[predIndex]))
		}
		for i, phi := range phis {
			fr.env[phi.(*ssa.Phi)] = fr.phitemps[i]
		}
	}
	return nonPhis
}

// doRecover implements the recover() built-in.
func doRecover(caller *frame) value {
	// recover() must be exactly one level beneath the deferred
	// function (two levels beneath the panicking function) to
	// have any effect.  Thus we ignore both "defer recover()" and
	// "defer f() -> g() -> recover()".
	if caller.i.mode&DisableRecover == 0 &&
		caller != nil && !caller.panicking &&
		caller.caller != nil && caller.caller.panicking {
		caller.caller.panicking = false
		p := caller.caller.panic
		caller.caller.panic = nil
		caller.i.panicTrace = ""

		// TODO(adonovan): support runtime.Goexit.
		switch p := p.(type) {
		case targetPanic:
			// The target program explicitly called panic().
			return p.v
		case runtime.Error:
			// The interpreter encountered a runtime error.
			return iface{caller.i.runtimeErrorString, p.Error()}
		default:
			panic(fmt.Sprintf("unexpected panic type %T in target call to recover()", p))
		}
	}
	return iface{}
}


// targetStack renders the interpreted call stack at fr (innermost first).
func targetStack(fr *frame) string {
	var sb strings.Builder
	n := 0
	for f := fr; f != nil && n < 14; f = f.caller {
		pos := ""
		if f.curInstr != nil {
			pos = f.i.prog.Fset.Position(f.curInstr.Pos()).String()
			if i := strings.LastIndex(pos, "/"); i >= 0 {
				pos = pos[i+1:]
			}
		}
		fmt.Fprintf(&sb, "\n    at %s (%s)", f.fn.String(), pos)
		n++
	}
	return sb.String()
}
